//! Reference encoder for format 1.1, written from the documentation.
//!
//! Besides the bytes it yields a map of the stream: which bytes are
//! meaningful (struct padding and inactive enum payload inside zero-copy
//! images are "don't care"), where every zero-copy block, tag and length
//! prefix lies, and which blocks an ε-copy deserialisation must borrow.

use crate::hash;
use crate::layout::*;
use crate::ty::*;

#[derive(Clone, Copy, Debug, PartialEq, Eq)]
pub enum BlockKind {
    /// `Vec<T>` / `Box<[T]>` of zero-copy `T` → `&[T]`
    Slice,
    /// `String` / `Box<str>` → `&str`
    Str,
    /// zero-copy struct / enum / tuple / array → `&T`
    Ref,
}

#[derive(Clone, Debug)]
pub struct Block {
    /// Where the padding before the block starts.
    pub pad_from: usize,
    /// Where the data starts.
    pub off: usize,
    /// Length of the data in bytes.
    pub len: usize,
    /// Alignment unit used for the padding (≥ 1).
    pub unit: usize,
    /// `MaxSizeOf` as documented (may be 0).
    pub unit_raw: usize,
    pub esize: usize,
    pub ealign: usize,
    /// Number of elements (1 for `Ref`).
    pub count: usize,
    pub kind: BlockKind,
    /// ε-copy deserialisation must return this block as a borrow.
    pub eps_borrowed: bool,
    pub path: String,
    pub ety: String,
}

#[derive(Clone, Debug)]
pub struct Tag {
    pub off: usize,
    pub width: usize,
    /// Values a writer may emit for this sum type.
    pub valid: Vec<u64>,
    pub written: u64,
    pub sum: String,
    pub path: String,
}

#[derive(Clone, Debug)]
pub struct LenPrefix {
    pub off: usize,
    pub value: usize,
    pub path: String,
}

#[derive(Clone, Debug, Default)]
pub struct Enc {
    pub bytes: Vec<u8>,
    /// `care[i] == false` ⇒ byte i is padding inside a zero-copy image.
    pub care: Vec<bool>,
    pub blocks: Vec<Block>,
    pub tags: Vec<Tag>,
    pub lens: Vec<LenPrefix>,
    pub header_len: usize,
    pub type_hash: u64,
    pub align_hash: u64,
}

pub const MAGIC: &[u8; 8] = b"epserde ";
pub const VERSION: (u16, u16) = (1, 1);
pub const FIXED_HEADER: usize = 29;

impl Enc {
    fn put(&mut self, b: &[u8]) {
        self.bytes.extend_from_slice(b);
        self.care.extend(std::iter::repeat(true).take(b.len()));
    }
    fn pos(&self) -> usize {
        self.bytes.len()
    }
    fn pad_to(&mut self, unit: usize) -> usize {
        let from = self.pos();
        let target = round_up(from, unit);
        self.put(&vec![0u8; target - from]);
        from
    }
    /// Compare with bytes produced by the implementation, ignoring don't-care
    /// positions.  Returns the first differing offset.
    pub fn first_diff(&self, other: &[u8]) -> Option<usize> {
        if self.bytes.len() != other.len() {
            let n = self.bytes.len().min(other.len());
            for i in 0..n {
                if self.care[i] && self.bytes[i] != other[i] {
                    return Some(i);
                }
            }
            return Some(n);
        }
        (0..other.len()).find(|&i| self.care[i] && self.bytes[i] != other[i])
    }
}

/// Little-endian bytes of a primitive bit pattern (this target is LE; the
/// format says native-endian).
pub fn prim_bytes(p: Prim, bits: u128) -> Vec<u8> {
    bits.to_le_bytes()[..p.size()].to_vec()
}

/// Encode header + value.  `type_name` is `core::any::type_name` of the
/// serialisation type.
pub fn encode(ty: &Ty, val: &Val, type_name: &str) -> Enc {
    let mut e = Enc::default();
    e.type_hash = hash::type_hash(ty);
    e.align_hash = hash::align_hash(ty);
    e.put(MAGIC);
    e.put(&VERSION.0.to_le_bytes());
    e.put(&VERSION.1.to_le_bytes());
    e.put(&[8u8]);
    let (th, ah) = (e.type_hash, e.align_hash);
    e.put(&th.to_le_bytes());
    e.put(&ah.to_le_bytes());
    e.put(&(type_name.len() as u64).to_le_bytes());
    e.put(type_name.as_bytes());
    e.header_len = e.pos();
    value(&mut e, ty, val, true, "ROOT");
    e
}

/// Encode a value without header at the current position (used for nested
/// contexts such as the `Pre<T>` wrapper of C07).
pub fn value(e: &mut Enc, ty: &Ty, val: &Val, eps: bool, path: &str) {
    match ty {
        Ty::Prim(p) => {
            let b = prim_bytes(*p, val.bits());
            e.put(&b);
        }
        Ty::Unit | Ty::Phantom(_) | Ty::RangeFull => {}
        Ty::Str | Ty::BoxStr => {
            let s = val.str();
            e.lens.push(LenPrefix { off: e.pos(), value: s.len(), path: path.into() });
            e.put(&(s.len() as u64).to_le_bytes());
            let off = e.pos();
            e.put(s.as_bytes());
            e.blocks.push(Block {
                pad_from: off, off, len: s.len(), unit: 1, unit_raw: 1, esize: 1, ealign: 1, count: s.len(),
                kind: BlockKind::Str, eps_borrowed: eps, path: path.into(), ety: "u8".into(),
            });
        }
        Ty::Vec(t) | Ty::BoxSlice(t) => {
            let items = val.seq();
            e.lens.push(LenPrefix { off: e.pos(), value: items.len(), path: path.into() });
            e.put(&(items.len() as u64).to_le_bytes());
            if t.is_zero() {
                let (es, ea) = size_align(t);
                let u = unit(t);
                let pad_from = e.pad_to(u);
                let off = e.pos();
                for it in items {
                    image(e, t, it);
                }
                e.blocks.push(Block {
                    pad_from, off, len: es * items.len(), unit: u, unit_raw: unit_raw(t), esize: es, ealign: ea,
                    count: items.len(), kind: BlockKind::Slice, eps_borrowed: eps, path: path.into(), ety: t.show(),
                });
            } else {
                for (i, it) in items.iter().enumerate() {
                    value(e, t, it, eps, &format!("{}[{}]", path, i));
                }
            }
        }
        Ty::Array(t, _) if !t.is_zero() => {
            for (i, it) in val.seq().iter().enumerate() {
                value(e, t, it, eps, &format!("{}[{}]", path, i));
            }
        }
        Ty::Array(..) | Ty::Tuple(..) => zero_block(e, ty, val, eps, path),
        Ty::Opt(t) => {
            let o = val.opt();
            e.tags.push(Tag {
                off: e.pos(), width: 1, valid: vec![0, 1], written: o.is_some() as u64,
                sum: "Option".into(), path: path.into(),
            });
            e.put(&[o.is_some() as u8]);
            if let Some(v) = o {
                value(e, t, v, eps, &format!("{}.Some", path));
            }
        }
        Ty::Range(k, t) => {
            // Written field by field: `Idx` values in isolation.
            let f = val.fields();
            for (i, v) in f.iter().enumerate() {
                value(e, t, v, eps, &format!("{}.{}", path, i));
            }
            if k.shape().1 {
                e.put(&[0u8]);
            }
        }
        Ty::Bound(t) => {
            let (i, f) = val.variant();
            e.tags.push(Tag {
                off: e.pos(), width: 1, valid: vec![0, 1, 2], written: i as u64,
                sum: "Bound".into(), path: path.into(),
            });
            e.put(&[i as u8]);
            if i != 0 {
                value(e, t, &f[0], eps, &format!("{}.{}", path, i));
            }
        }
        Ty::Flow(b, c) => {
            let (i, f) = val.variant();
            e.tags.push(Tag {
                off: e.pos(), width: 1, valid: vec![0, 1], written: i as u64,
                sum: "ControlFlow".into(), path: path.into(),
            });
            e.put(&[i as u8]);
            value(e, if i == 0 { b } else { c }, &f[0], eps, &format!("{}.{}", path, i));
        }
        Ty::User(u) if u.zero => zero_block(e, ty, val, eps, path),
        Ty::User(u) => {
            if u.is_enum {
                let (i, f) = val.variant();
                e.tags.push(Tag {
                    off: e.pos(), width: 8, valid: (0..u.variants.len() as u64).collect(), written: i as u64,
                    sum: format!("enum {}", u.name), path: path.into(),
                });
                e.put(&(i as u64).to_le_bytes());
                for (fd, v) in u.variants[i].fields.iter().zip(f) {
                    value(e, &fd.ty, v, eps && fd.eps, &format!("{}.{}.{}", path, u.variants[i].name, fd.name));
                }
            } else {
                for (fd, v) in u.variants[0].fields.iter().zip(val.fields()) {
                    value(e, &fd.ty, v, eps && fd.eps, &format!("{}.{}", path, fd.name));
                }
            }
        }
    }
}

/// A single zero-copy value in isolation: pad to its unit, then its image.
fn zero_block(e: &mut Enc, ty: &Ty, val: &Val, eps: bool, path: &str) {
    let (s, a) = size_align(ty);
    let u = unit(ty);
    let pad_from = e.pad_to(u);
    let off = e.pos();
    image(e, ty, val);
    e.blocks.push(Block {
        pad_from, off, len: s, unit: u, unit_raw: unit_raw(ty), esize: s, ealign: a, count: 1,
        kind: BlockKind::Ref, eps_borrowed: eps, path: path.into(), ety: ty.show(),
    });
}

/// Append the memory image of a zero-copy value.
pub fn image(e: &mut Enc, ty: &Ty, val: &Val) {
    let (size, _) = size_align(ty);
    let base = e.pos();
    e.bytes.extend(std::iter::repeat(0u8).take(size));
    e.care.extend(std::iter::repeat(false).take(size));
    image_at(e, base, ty, val);
}

fn image_at(e: &mut Enc, at: usize, ty: &Ty, val: &Val) {
    match ty {
        Ty::Prim(p) => {
            let b = prim_bytes(*p, val.bits());
            e.bytes[at..at + b.len()].copy_from_slice(&b);
            for c in &mut e.care[at..at + b.len()] {
                *c = true;
            }
        }
        Ty::Unit | Ty::Phantom(_) | Ty::RangeFull => {}
        Ty::Array(t, _) | Ty::Tuple(t, _) => {
            let (s, _) = size_align(t);
            for (i, v) in val.seq().iter().enumerate() {
                image_at(e, at + i * s, t, v);
            }
        }
        Ty::Range(k, t) => {
            let (s, _) = size_align(t);
            let f = val.fields();
            for (i, v) in f.iter().enumerate() {
                image_at(e, at + i * s, t, v);
            }
            if k.shape().1 {
                e.bytes[at + f.len() * s] = 0;
                e.care[at + f.len() * s] = true;
            }
        }
        Ty::User(u) if u.zero => {
            if u.is_enum {
                let (tag, voffs, _, _) = enum_layout(u);
                let (i, f) = val.variant();
                let tb = (i as u64).to_le_bytes();
                e.bytes[at..at + tag].copy_from_slice(&tb[..tag]);
                for c in &mut e.care[at..at + tag] {
                    *c = true;
                }
                for ((fd, v), o) in u.variants[i].fields.iter().zip(f).zip(&voffs[i]) {
                    image_at(e, at + o, &fd.ty, v);
                }
            } else {
                let offs = field_offsets(u, 0);
                for ((fd, v), o) in u.variants[0].fields.iter().zip(val.fields()).zip(&offs) {
                    image_at(e, at + o, &fd.ty, v);
                }
            }
        }
        _ => panic!("model: image of deep-copy type {}", ty.show()),
    }
}
