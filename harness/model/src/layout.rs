//! Layout model of zero-copy types on this target (x86_64-linux) and the
//! alignment unit (`MaxSizeOf`) as documented.

use crate::ty::*;

pub fn round_up(v: usize, a: usize) -> usize {
    if a <= 1 {
        v
    } else {
        v.div_ceil(a) * a
    }
}

/// Tag size of a `repr(C)` zero-copy enum: `c_int` unless an integer
/// representation is also given.
pub fn enum_tag_size(reprs: &[String]) -> usize {
    for r in reprs {
        for part in r.split(',') {
            match part.trim() {
                "u8" | "i8" => return 1,
                "u16" | "i16" => return 2,
                "u32" | "i32" => return 4,
                "u64" | "i64" | "usize" | "isize" => return 8,
                _ => {}
            }
        }
    }
    4
}

/// `repr(align(N))` request, if any.
pub fn repr_align(reprs: &[String]) -> usize {
    let mut a = 1;
    for r in reprs {
        let s: String = r.chars().filter(|c| !c.is_whitespace()).collect();
        if let Some(rest) = s.strip_prefix("align(") {
            if let Some(n) = rest.strip_suffix(')') {
                if let Ok(n) = n.parse::<usize>() {
                    a = a.max(n);
                }
            }
        }
    }
    a
}

/// Layout of a `repr(C)` struct made of the given field types.
fn c_struct(fields: &[Field]) -> (usize, usize, Vec<usize>) {
    let mut off = 0;
    let mut align = 1;
    let mut offs = vec![];
    for f in fields {
        let (s, a) = size_align(&f.ty);
        off = round_up(off, a);
        offs.push(off);
        off += s;
        align = align.max(a);
    }
    (round_up(off, align), align, offs)
}

/// For a zero-copy enum: (tag size, per-variant field offsets from the start
/// of the enum, size, align) according to the `repr(C)` tagged-union rules.
pub fn enum_layout(u: &User) -> (usize, Vec<Vec<usize>>, usize, usize) {
    let tag = enum_tag_size(&u.reprs);
    let mut palign = 1;
    let mut psize = 0;
    let mut voffs = vec![];
    for v in &u.variants {
        let (s, a, o) = c_struct(&v.fields);
        palign = palign.max(a);
        psize = psize.max(s);
        voffs.push(o);
    }
    let fieldless = u.variants.iter().all(|v| v.fields.is_empty());
    let pay_off = if fieldless { tag } else { round_up(tag, palign) };
    let align = tag.max(palign).max(repr_align(&u.reprs));
    let size = round_up(pay_off + psize, align);
    let voffs = voffs.into_iter().map(|o| o.into_iter().map(|x| x + pay_off).collect()).collect();
    (tag, voffs, size, align)
}

/// (size, align) of a zero-copy type.  Panics on deep-copy types.
pub fn size_align(ty: &Ty) -> (usize, usize) {
    match ty {
        Ty::Prim(p) => (p.size(), p.align()),
        Ty::Unit | Ty::Phantom(_) | Ty::RangeFull => (0, 1),
        Ty::Array(t, n) => {
            let (s, a) = size_align(t);
            (s * n, a)
        }
        Ty::Tuple(t, n) => {
            let (s, a) = size_align(t);
            (s * n, a)
        }
        Ty::Range(k, t) => {
            let (s, a) = size_align(t);
            let (n, flag) = k.shape();
            (round_up(s * n + if flag { 1 } else { 0 }, a), a)
        }
        Ty::User(u) if u.zero => {
            if let Some(l) = &u.layout {
                (l.size, l.align)
            } else if u.is_enum {
                let (_, _, s, a) = enum_layout(u);
                (s, a)
            } else {
                let (s, a, _) = c_struct(&u.variants[0].fields);
                let a2 = a.max(repr_align(&u.reprs));
                (round_up(s, a2), a2)
            }
        }
        _ => panic!("model: size_align of deep-copy type {}", ty.show()),
    }
}

/// Offsets of the fields of variant `vi` of a zero-copy user type.
pub fn field_offsets(u: &User, vi: usize) -> Vec<usize> {
    if u.is_enum {
        enum_layout(u).1[vi].clone()
    } else if let Some(l) = &u.layout {
        l.offsets.clone()
    } else {
        c_struct(&u.variants[0].fields).2
    }
}

/// `MaxSizeOf::max_size_of()` as documented (may be 0 for zero-sized leaves).
pub fn unit_raw(ty: &Ty) -> usize {
    match ty {
        Ty::Prim(p) => p.size(),
        Ty::Unit | Ty::Phantom(_) | Ty::RangeFull => 0,
        Ty::Array(t, _) | Ty::Tuple(t, _) => unit_raw(t),
        Ty::Range(..) => size_align(ty).0,
        Ty::User(u) if u.zero => {
            let mut m = size_align(ty).1;
            for v in &u.variants {
                for f in &v.fields {
                    m = m.max(unit_raw(&f.ty));
                }
            }
            m
        }
        _ => panic!("model: unit of deep-copy type {}", ty.show()),
    }
}

/// The padding unit actually usable: a zero unit pads to nothing.
pub fn unit(ty: &Ty) -> usize {
    unit_raw(ty).max(1)
}

/// All zero-copy types nested in `ty` whose unit is not a power of two
/// (e.g. `RangeTo<Z12>`): the padding rule is not well defined for them.
pub fn has_odd_unit(ty: &Ty) -> bool {
    // Ranges that are not `Copy` are never written as a zero-copy block (they
    // are serialised field by field), so their own unit is never used.
    let never_block = matches!(ty, Ty::Range(k, _) if !k.is_copy());
    let own = ty.is_zero() && !never_block && !unit(ty).is_power_of_two();
    own || match ty {
        Ty::Phantom(_) => false,
        Ty::Vec(t) | Ty::BoxSlice(t) | Ty::Array(t, _) | Ty::Tuple(t, _) | Ty::Opt(t) | Ty::Range(_, t) | Ty::Bound(t) => {
            has_odd_unit(t)
        }
        Ty::Flow(b, c) => has_odd_unit(b) || has_odd_unit(c),
        Ty::User(u) => u.variants.iter().any(|v| v.fields.iter().any(|f| has_odd_unit(&f.ty))),
        _ => false,
    }
}

/// The largest alignment unit of any zero-copy block a value of this type can
/// contain (what the start address of a buffer must be a multiple of for
/// ε-copy deserialisation to be possible for every value).
pub fn max_unit(ty: &Ty) -> usize {
    let own = if ty.is_zero() { unit(ty) } else { 1 };
    let inner = match ty {
        Ty::Phantom(_) => 1,
        Ty::Vec(t) | Ty::BoxSlice(t) | Ty::Array(t, _) | Ty::Tuple(t, _) | Ty::Opt(t) | Ty::Range(_, t) | Ty::Bound(t) => max_unit(t),
        Ty::Flow(b, c) => max_unit(b).max(max_unit(c)),
        Ty::User(u) => u.variants.iter().flat_map(|v| v.fields.iter()).map(|f| max_unit(&f.ty)).max().unwrap_or(1),
        _ => 1,
    };
    own.max(inner)
}
