//! The published hash recipe (DESIGN.md appendix A) as an event list fed to
//! xxh3-64, and the structural signature used by C04.

use crate::layout::*;
use crate::ty::*;

#[derive(Default)]
pub struct Events(pub Vec<u8>);

impl Events {
    pub fn s(&mut self, s: &str) {
        self.0.extend_from_slice(s.as_bytes());
        self.0.push(0xff);
    }
    pub fn usize(&mut self, v: usize) {
        self.0.extend_from_slice(&(v as u64).to_le_bytes());
    }
    pub fn cval(&mut self, c: &ConstVal) {
        match c {
            ConstVal::Usize(v) => self.0.extend_from_slice(&v.to_le_bytes()),
            ConstVal::Bool(b) => self.0.push(*b as u8),
            ConstVal::U8(b) => self.0.push(*b),
            ConstVal::I32(v) => self.0.extend_from_slice(&v.to_le_bytes()),
            ConstVal::Char(c) => self.0.extend_from_slice(&(*c as u32).to_le_bytes()),
        }
    }
    pub fn digest(&self) -> u64 {
        xxhash_rust::xxh3::xxh3_64(&self.0)
    }
}

pub fn type_hash(ty: &Ty) -> u64 {
    let mut e = Events::default();
    type_events(ty, &mut e);
    e.digest()
}

pub fn align_hash(ty: &Ty) -> u64 {
    let mut e = Events::default();
    let mut off = 0;
    align_events(ty, &mut e, &mut off);
    e.digest()
}

pub fn type_events(ty: &Ty, e: &mut Events) {
    match ty {
        Ty::Prim(p) => e.s(p.hash_name()),
        Ty::Unit => e.s("()"),
        Ty::Phantom(t) => {
            e.s("PhantomData");
            type_events(t, e);
        }
        Ty::RangeFull => e.s("core::ops::RangeFull"),
        Ty::Str => e.s("String"),
        Ty::BoxStr => e.s("Box<str>"),
        Ty::Vec(t) => {
            e.s("Vec");
            type_events(t, e);
        }
        Ty::BoxSlice(t) => {
            e.s("Box<[]>");
            type_events(t, e);
        }
        Ty::Array(t, n) => {
            e.s("[]");
            e.usize(*n);
            type_events(t, e);
        }
        Ty::Tuple(t, n) => {
            e.s("()");
            for _ in 0..*n {
                type_events(t, e);
            }
        }
        Ty::Opt(t) => {
            e.s("Option");
            type_events(t, e);
        }
        Ty::Range(k, t) => {
            e.s(&format!("core :: ops :: {}", k.ident()));
            type_events(t, e);
        }
        Ty::Bound(t) => {
            e.s("core::ops::Bound");
            type_events(t, e);
        }
        Ty::Flow(b, c) => {
            e.s("core::ops::ControlFlow");
            type_events(b, e);
            type_events(c, e);
        }
        Ty::User(u) => {
            e.s(if u.zero { "ZeroCopy" } else { "DeepCopy" });
            for (_, v) in &u.consts {
                e.cval(v);
            }
            for (n, _) in &u.consts {
                e.s(n);
            }
            e.s(&u.name);
            if u.is_enum {
                for v in &u.variants {
                    e.s(&v.name);
                    for f in &v.fields {
                        e.s(&f.name);
                        type_events(&f.ty, e);
                    }
                }
            } else {
                for f in &u.variants[0].fields {
                    e.s(&f.name);
                }
                for f in &u.variants[0].fields {
                    type_events(&f.ty, e);
                }
            }
        }
    }
}

fn std_align(ty: &Ty, e: &mut Events, off: &mut usize) {
    let (s, a) = size_align(ty);
    let pad = round_up(*off, a) - *off;
    e.usize(pad);
    e.usize(s);
    *off += pad + s;
}

pub fn align_events(ty: &Ty, e: &mut Events, off: &mut usize) {
    match ty {
        Ty::Prim(_) | Ty::Unit => std_align(ty, e, off),
        Ty::Phantom(_) | Ty::RangeFull | Ty::Str | Ty::BoxStr | Ty::Bound(_) => {}
        Ty::Vec(t) | Ty::BoxSlice(t) | Ty::Opt(t) => {
            let mut z = 0;
            align_events(t, e, &mut z);
        }
        Ty::Array(t, n) => {
            if *n == 0 {
                return;
            }
            align_events(t, e, off);
            // size_of::<T>() exists for every T; deep element types only
            // occur at offset 0 where the running offset is irrelevant.
            let s = if t.is_zero() { size_align(t).0 } else { 0 };
            *off += (*n - 1) * s;
        }
        Ty::Tuple(t, n) => {
            for _ in 0..*n {
                align_events(t, e, off);
            }
        }
        Ty::Range(_, t) => {
            std_align(t, e, off);
            std_align(t, e, off);
        }
        Ty::Flow(b, c) => {
            let mut z = 0;
            align_events(b, e, &mut z);
            let mut z = 0;
            align_events(c, e, &mut z);
        }
        Ty::User(u) if u.zero => {
            e.usize(size_align(ty).0);
            for r in &u.reprs {
                e.s(r);
            }
            if u.is_enum {
                let old = *off;
                for v in &u.variants {
                    *off = old;
                    for f in &v.fields {
                        align_events(&f.ty, e, off);
                    }
                }
            } else {
                for f in &u.variants[0].fields {
                    align_events(&f.ty, e, off);
                }
            }
        }
        Ty::User(u) => {
            if u.is_enum {
                for v in &u.variants {
                    let mut z = 0;
                    for f in &v.fields {
                        align_events(&f.ty, e, &mut z);
                    }
                }
            } else {
                for f in &u.variants[0].fields {
                    let mut z = 0;
                    align_events(&f.ty, e, &mut z);
                }
            }
        }
    }
}

/// Structural signature: two types have the same serialised structure iff
/// their signatures are equal.  Independent of the hash recipe: it is a
/// canonical rendering of everything C04 lists (type name, field/variant
/// names and order, field types, generic arguments, const names/values,
/// sequence kind, array length, tuple arity, copy kind) plus, wherever
/// zero-copy data or its padding can appear in the stream, the memory layout
/// (size, alignment, representation attributes, field offsets).
pub fn sig(ty: &Ty) -> String {
    let mut s = String::new();
    sig_into(ty, true, &mut s);
    s
}

fn sig_into(ty: &Ty, layout: bool, s: &mut String) {
    match ty {
        Ty::Prim(p) => s.push_str(p.hash_name()),
        Ty::Unit => s.push_str("unit"),
        Ty::Phantom(t) => {
            // No data and no padding is ever written for a PhantomData; only
            // the identity of the parameter matters, not its layout.
            s.push_str("Phantom<");
            sig_into(t, false, s);
            s.push('>');
        }
        Ty::RangeFull => s.push_str("RangeFull"),
        Ty::Str => s.push_str("String"),
        Ty::BoxStr => s.push_str("BoxStr"),
        Ty::Vec(t) => {
            s.push_str("Vec<");
            sig_into(t, layout, s);
            s.push('>');
        }
        Ty::BoxSlice(t) => {
            s.push_str("BoxSlice<");
            sig_into(t, layout, s);
            s.push('>');
        }
        Ty::Array(t, n) => {
            s.push_str(&format!("Array{}<", n));
            sig_into(t, layout, s);
            s.push('>');
        }
        Ty::Tuple(t, n) => {
            s.push_str(&format!("Tuple{}<", n));
            sig_into(t, layout, s);
            s.push('>');
        }
        Ty::Opt(t) => {
            s.push_str("Option<");
            sig_into(t, layout, s);
            s.push('>');
        }
        Ty::Range(k, t) => {
            s.push_str(k.ident());
            s.push('<');
            sig_into(t, layout, s);
            s.push('>');
        }
        Ty::Bound(t) => {
            s.push_str("Bound<");
            sig_into(t, layout, s);
            s.push('>');
        }
        Ty::Flow(b, c) => {
            s.push_str("Flow<");
            sig_into(b, layout, s);
            s.push(',');
            sig_into(c, layout, s);
            s.push('>');
        }
        Ty::User(u) => {
            s.push_str(if u.zero { "zero " } else { "deep " });
            s.push_str(if u.is_enum { "enum " } else { "struct " });
            s.push_str(&u.name);
            s.push('[');
            for (n, v) in &u.consts {
                s.push_str(&format!("{}={:?};", n, v));
            }
            s.push(']');
            if u.zero && layout {
                let (sz, al) = size_align(ty);
                s.push_str(&format!("(size={},align={},repr={:?}", sz, al, u.reprs));
                for vi in 0..u.variants.len() {
                    s.push_str(&format!(",offs{:?}", field_offsets(u, vi)));
                }
                s.push(')');
            }
            s.push('{');
            for v in &u.variants {
                s.push_str(&v.name);
                s.push('(');
                for f in &v.fields {
                    s.push_str(&f.name);
                    s.push(':');
                    sig_into(&f.ty, layout, s);
                    s.push(',');
                }
                s.push(')');
                s.push('|');
            }
            s.push('}');
        }
    }
}
