//! Reference model of ε-serde's format 1.1, independent of the implementation.
pub mod dec;
pub mod enc;
pub mod gen;
pub mod hash;
pub mod json;
pub mod layout;
pub mod rng;
pub mod ty;

pub use ty::*;
