//! Reference decoder for format 1.1 (bytes → `Val`), independent of the
//! implementation.  Used as second oracle for C01/C06 and to read the corpus.

use crate::enc::{FIXED_HEADER, MAGIC};
use crate::layout::*;
use crate::ty::*;

#[derive(Debug, Clone, PartialEq, Eq)]
pub enum DecErr {
    Eof(usize),
    BadMagic,
    BadVersion,
    BadTag(usize, u64),
    BadUtf8(usize),
    BadValue(usize, String),
    NonZeroPad(usize),
    Trailing(usize),
}

pub struct Dec<'a> {
    pub b: &'a [u8],
    pub pos: usize,
    /// Check that padding bytes are zero.
    pub strict_pad: bool,
}

#[derive(Debug, Clone)]
pub struct Header {
    pub major: u16,
    pub minor: u16,
    pub usize_size: u8,
    pub type_hash: u64,
    pub align_hash: u64,
    pub type_name: String,
    pub len: usize,
}

impl<'a> Dec<'a> {
    fn take(&mut self, n: usize) -> Result<&'a [u8], DecErr> {
        if self.pos + n > self.b.len() {
            return Err(DecErr::Eof(self.pos));
        }
        let s = &self.b[self.pos..self.pos + n];
        self.pos += n;
        Ok(s)
    }
    fn u64(&mut self) -> Result<u64, DecErr> {
        Ok(u64::from_le_bytes(self.take(8)?.try_into().unwrap()))
    }
    fn pad(&mut self, unit: usize) -> Result<(), DecErr> {
        let t = round_up(self.pos, unit);
        let from = self.pos;
        let p = self.take(t - from)?;
        if self.strict_pad && p.iter().any(|&x| x != 0) {
            return Err(DecErr::NonZeroPad(from));
        }
        Ok(())
    }
}

pub fn header(b: &[u8]) -> Result<Header, DecErr> {
    let mut d = Dec { b, pos: 0, strict_pad: true };
    if d.take(8)? != MAGIC {
        return Err(DecErr::BadMagic);
    }
    let major = u16::from_le_bytes(d.take(2)?.try_into().unwrap());
    let minor = u16::from_le_bytes(d.take(2)?.try_into().unwrap());
    let usize_size = d.take(1)?[0];
    let type_hash = d.u64()?;
    let align_hash = d.u64()?;
    debug_assert_eq!(d.pos, FIXED_HEADER);
    let n = d.u64()? as usize;
    let name = d.take(n)?;
    let type_name = String::from_utf8(name.to_vec()).map_err(|_| DecErr::BadUtf8(d.pos))?;
    Ok(Header { major, minor, usize_size, type_hash, align_hash, type_name, len: d.pos })
}

/// Decode a whole stream (header + value); the value must end exactly at the
/// end of the stream.
pub fn decode(ty: &Ty, b: &[u8]) -> Result<(Header, Val), DecErr> {
    let h = header(b)?;
    if h.major != 1 || h.minor > 1 || h.usize_size != 8 {
        return Err(DecErr::BadVersion);
    }
    let mut d = Dec { b, pos: h.len, strict_pad: true };
    let v = value(&mut d, ty)?;
    if d.pos != b.len() {
        return Err(DecErr::Trailing(d.pos));
    }
    Ok((h, v))
}

fn prim(d: &mut Dec, p: Prim) -> Result<Val, DecErr> {
    let at = d.pos;
    let s = d.take(p.size())?;
    let mut w = [0u8; 16];
    w[..s.len()].copy_from_slice(s);
    let bits = u128::from_le_bytes(w);
    check_prim(p, bits, at)?;
    Ok(Val::P(bits))
}

fn check_prim(p: Prim, bits: u128, at: usize) -> Result<(), DecErr> {
    if p.is_nonzero() && bits == 0 {
        return Err(DecErr::BadValue(at, "zero NonZero".into()));
    }
    if p == Prim::Char && char::from_u32(bits as u32).is_none() {
        return Err(DecErr::BadValue(at, "bad char".into()));
    }
    Ok(())
}

pub fn value(d: &mut Dec, ty: &Ty) -> Result<Val, DecErr> {
    Ok(match ty {
        Ty::Prim(Prim::Bool) => {
            // A bool in isolation is read as "byte != 0".
            let b = d.take(1)?[0];
            Val::P((b != 0) as u128)
        }
        Ty::Prim(p) => prim(d, *p)?,
        Ty::Unit | Ty::Phantom(_) | Ty::RangeFull => Val::Z,
        Ty::Str | Ty::BoxStr => {
            let n = d.u64()? as usize;
            let at = d.pos;
            let s = d.take(n)?;
            Val::Str(String::from_utf8(s.to_vec()).map_err(|_| DecErr::BadUtf8(at))?)
        }
        Ty::Vec(t) | Ty::BoxSlice(t) => {
            let n = d.u64()? as usize;
            if t.is_zero() {
                d.pad(unit(t))?;
                let (s, _) = size_align(t);
                if s.checked_mul(n).map_or(true, |x| d.pos + x > d.b.len()) {
                    return Err(DecErr::Eof(d.pos));
                }
                let mut out = Vec::with_capacity(n.min(1 << 16));
                for _ in 0..n {
                    out.push(image(d.b, d.pos, t)?);
                    d.pos += s;
                }
                Val::Seq(out)
            } else {
                let mut out = Vec::new();
                for _ in 0..n {
                    out.push(value(d, t)?);
                }
                Val::Seq(out)
            }
        }
        Ty::Array(t, n) if !t.is_zero() => {
            let mut out = Vec::new();
            for _ in 0..*n {
                out.push(value(d, t)?);
            }
            Val::Seq(out)
        }
        Ty::Array(..) | Ty::Tuple(..) => zero_block(d, ty)?,
        Ty::Opt(t) => {
            let at = d.pos;
            match d.take(1)?[0] {
                0 => Val::Opt(None),
                1 => Val::Opt(Some(Box::new(value(d, t)?))),
                x => return Err(DecErr::BadTag(at, x as u64)),
            }
        }
        Ty::Range(k, t) => {
            let (n, flag) = k.shape();
            let mut f = vec![];
            for _ in 0..n {
                f.push(value(d, t)?);
            }
            if flag {
                let at = d.pos;
                if d.take(1)?[0] != 0 {
                    return Err(DecErr::BadValue(at, "exhausted inclusive range".into()));
                }
            }
            Val::Struct(f)
        }
        Ty::Bound(t) => {
            let at = d.pos;
            match d.take(1)?[0] {
                0 => Val::Variant(0, vec![]),
                1 => Val::Variant(1, vec![value(d, t)?]),
                2 => Val::Variant(2, vec![value(d, t)?]),
                x => return Err(DecErr::BadTag(at, x as u64)),
            }
        }
        Ty::Flow(b, c) => {
            let at = d.pos;
            match d.take(1)?[0] {
                0 => Val::Variant(0, vec![value(d, b)?]),
                1 => Val::Variant(1, vec![value(d, c)?]),
                x => return Err(DecErr::BadTag(at, x as u64)),
            }
        }
        Ty::User(u) if u.zero => zero_block(d, ty)?,
        Ty::User(u) => {
            if u.is_enum {
                let at = d.pos;
                let i = d.u64()?;
                if i >= u.variants.len() as u64 {
                    return Err(DecErr::BadTag(at, i));
                }
                let mut f = vec![];
                for fd in &u.variants[i as usize].fields {
                    f.push(value(d, &fd.ty)?);
                }
                Val::Variant(i as usize, f)
            } else {
                let mut f = vec![];
                for fd in &u.variants[0].fields {
                    f.push(value(d, &fd.ty)?);
                }
                Val::Struct(f)
            }
        }
    })
}

fn zero_block(d: &mut Dec, ty: &Ty) -> Result<Val, DecErr> {
    d.pad(unit(ty))?;
    let (s, _) = size_align(ty);
    if d.pos + s > d.b.len() {
        return Err(DecErr::Eof(d.pos));
    }
    let v = image(d.b, d.pos, ty)?;
    d.pos += s;
    Ok(v)
}

/// Read a zero-copy value from its memory image at `at`.
pub fn image(b: &[u8], at: usize, ty: &Ty) -> Result<Val, DecErr> {
    Ok(match ty {
        Ty::Prim(p) => {
            let s = &b[at..at + p.size()];
            let mut w = [0u8; 16];
            w[..s.len()].copy_from_slice(s);
            let bits = u128::from_le_bytes(w);
            if *p == Prim::Bool && bits > 1 {
                return Err(DecErr::BadValue(at, "bool image not 0/1".into()));
            }
            check_prim(*p, bits, at)?;
            Val::P(bits)
        }
        Ty::Unit | Ty::Phantom(_) | Ty::RangeFull => Val::Z,
        Ty::Array(t, n) | Ty::Tuple(t, n) => {
            let (s, _) = size_align(t);
            let mut out = vec![];
            for i in 0..*n {
                out.push(image(b, at + i * s, t)?);
            }
            Val::Seq(out)
        }
        Ty::Range(k, t) => {
            let (s, _) = size_align(t);
            let (n, _) = k.shape();
            let mut f = vec![];
            for i in 0..n {
                f.push(image(b, at + i * s, t)?);
            }
            Val::Struct(f)
        }
        Ty::User(u) if u.zero => {
            if u.is_enum {
                let (tag, voffs, _, _) = enum_layout(u);
                let mut w = [0u8; 8];
                w[..tag].copy_from_slice(&b[at..at + tag]);
                let i = u64::from_le_bytes(w);
                if i >= u.variants.len() as u64 {
                    return Err(DecErr::BadTag(at, i));
                }
                let i = i as usize;
                let mut f = vec![];
                for (fd, o) in u.variants[i].fields.iter().zip(&voffs[i]) {
                    f.push(image(b, at + o, &fd.ty)?);
                }
                Val::Variant(i, f)
            } else {
                let offs = field_offsets(u, 0);
                let mut f = vec![];
                for (fd, o) in u.variants[0].fields.iter().zip(&offs) {
                    f.push(image(b, at + o, &fd.ty)?);
                }
                Val::Struct(f)
            }
        }
        _ => panic!("model: image of deep-copy type {}", ty.show()),
    })
}
