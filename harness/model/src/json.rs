//! Minimal JSON emitter (no external crates are needed by the harness).
use std::fmt::Write;

#[derive(Clone, Debug)]
pub enum J {
    Null,
    B(bool),
    I(i128),
    F(f64),
    S(String),
    A(Vec<J>),
    O(Vec<(String, J)>),
}

impl J {
    pub fn s(x: impl Into<String>) -> J {
        J::S(x.into())
    }
    pub fn u(x: impl TryInto<i128>) -> J {
        J::I(x.try_into().ok().unwrap_or(-1))
    }
    pub fn obj(kv: Vec<(&str, J)>) -> J {
        J::O(kv.into_iter().map(|(k, v)| (k.to_string(), v)).collect())
    }
    pub fn render(&self) -> String {
        let mut s = String::new();
        self.write(&mut s);
        s
    }
    fn write(&self, out: &mut String) {
        match self {
            J::Null => out.push_str("null"),
            J::B(b) => out.push_str(if *b { "true" } else { "false" }),
            J::I(i) => {
                let _ = write!(out, "{}", i);
            }
            J::F(f) => {
                if f.is_finite() {
                    let _ = write!(out, "{}", f);
                } else {
                    out.push_str("null");
                }
            }
            J::S(s) => esc(s, out),
            J::A(a) => {
                out.push('[');
                for (i, x) in a.iter().enumerate() {
                    if i > 0 {
                        out.push(',');
                    }
                    x.write(out);
                }
                out.push(']');
            }
            J::O(o) => {
                out.push('{');
                for (i, (k, v)) in o.iter().enumerate() {
                    if i > 0 {
                        out.push(',');
                    }
                    esc(k, out);
                    out.push(':');
                    v.write(out);
                }
                out.push('}');
            }
        }
    }
}

fn esc(s: &str, out: &mut String) {
    out.push('"');
    for c in s.chars() {
        match c {
            '"' => out.push_str("\\\""),
            '\\' => out.push_str("\\\\"),
            '\n' => out.push_str("\\n"),
            '\r' => out.push_str("\\r"),
            '\t' => out.push_str("\\t"),
            c if (c as u32) < 0x20 => {
                let _ = write!(out, "\\u{:04x}", c as u32);
            }
            c => out.push(c),
        }
    }
    out.push('"');
}
