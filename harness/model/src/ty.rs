//! Run-time descriptors of the types of the universe and dynamic values.
//!
//! Nothing here depends on epserde: the descriptors are produced by the
//! generated `HasTy` glue from the *real* Rust types (so generic
//! instantiation is done by rustc), and consumed by the reference
//! encoder/decoder, the hash recipe and the monitors.

use std::rc::Rc;

#[derive(Clone, Copy, Debug, PartialEq, Eq, Hash, PartialOrd, Ord)]
pub enum Prim {
    U8, U16, U32, U64, U128, Usize,
    I8, I16, I32, I64, I128, Isize,
    F32, F64,
    NzU8, NzU16, NzU32, NzU64, NzU128, NzUsize,
    NzI8, NzI16, NzI32, NzI64, NzI128, NzIsize,
    Bool, Char,
}

impl Prim {
    pub const ALL: [Prim; 28] = [
        Prim::U8, Prim::U16, Prim::U32, Prim::U64, Prim::U128, Prim::Usize,
        Prim::I8, Prim::I16, Prim::I32, Prim::I64, Prim::I128, Prim::Isize,
        Prim::F32, Prim::F64,
        Prim::NzU8, Prim::NzU16, Prim::NzU32, Prim::NzU64, Prim::NzU128, Prim::NzUsize,
        Prim::NzI8, Prim::NzI16, Prim::NzI32, Prim::NzI64, Prim::NzI128, Prim::NzIsize,
        Prim::Bool, Prim::Char,
    ];
    /// Size in the stream and in memory (x86_64, 64-bit usize).
    pub fn size(self) -> usize {
        use Prim::*;
        match self {
            U8 | I8 | NzU8 | NzI8 | Bool => 1,
            U16 | I16 | NzU16 | NzI16 => 2,
            U32 | I32 | NzU32 | NzI32 | F32 | Char => 4,
            U64 | I64 | NzU64 | NzI64 | F64 | Usize | Isize | NzUsize | NzIsize => 8,
            U128 | I128 | NzU128 | NzI128 => 16,
        }
    }
    pub fn align(self) -> usize {
        self.size()
    }
    /// The string fed to the type hasher (`stringify!` of the type token).
    pub fn hash_name(self) -> &'static str {
        use Prim::*;
        match self {
            U8 => "u8", U16 => "u16", U32 => "u32", U64 => "u64", U128 => "u128", Usize => "usize",
            I8 => "i8", I16 => "i16", I32 => "i32", I64 => "i64", I128 => "i128", Isize => "isize",
            F32 => "f32", F64 => "f64",
            NzU8 => "NonZeroU8", NzU16 => "NonZeroU16", NzU32 => "NonZeroU32", NzU64 => "NonZeroU64",
            NzU128 => "NonZeroU128", NzUsize => "NonZeroUsize",
            NzI8 => "NonZeroI8", NzI16 => "NonZeroI16", NzI32 => "NonZeroI32", NzI64 => "NonZeroI64",
            NzI128 => "NonZeroI128", NzIsize => "NonZeroIsize",
            Bool => "bool", Char => "char",
        }
    }
    pub fn is_nonzero(self) -> bool {
        use Prim::*;
        matches!(self, NzU8 | NzU16 | NzU32 | NzU64 | NzU128 | NzUsize | NzI8 | NzI16 | NzI32 | NzI64 | NzI128 | NzIsize)
    }
    pub fn is_float(self) -> bool {
        matches!(self, Prim::F32 | Prim::F64)
    }
}

#[derive(Clone, Copy, Debug, PartialEq, Eq, Hash)]
pub enum RangeKind {
    Range, From, Inclusive, To, ToInclusive,
}

impl RangeKind {
    pub fn ident(self) -> &'static str {
        match self {
            RangeKind::Range => "Range",
            RangeKind::From => "RangeFrom",
            RangeKind::Inclusive => "RangeInclusive",
            RangeKind::To => "RangeTo",
            RangeKind::ToInclusive => "RangeToInclusive",
        }
    }
    /// Number of `Idx` fields written, and whether a trailing `bool` follows.
    pub fn shape(self) -> (usize, bool) {
        match self {
            RangeKind::Range => (2, false),
            RangeKind::From | RangeKind::To | RangeKind::ToInclusive => (1, false),
            RangeKind::Inclusive => (2, true),
        }
    }
    /// `Copy`, hence usable as zero-copy element / field.
    pub fn is_copy(self) -> bool {
        matches!(self, RangeKind::To | RangeKind::ToInclusive)
    }
}

#[derive(Clone, Debug, PartialEq, Eq, Hash)]
pub enum ConstVal {
    Usize(u64),
    Bool(bool),
    U8(u8),
    I32(i32),
    Char(char),
}

#[derive(Clone, Copy, Debug, PartialEq, Eq, Hash)]
pub enum VKind {
    Named,
    Tuple,
    Unit,
}

#[derive(Clone, Debug, PartialEq, Eq, Hash)]
pub struct Field {
    pub name: String,
    pub ty: Ty,
    /// The declared type of the field is exactly a type parameter of the
    /// definition: the derive ε-copy deserialises it; every other field of a
    /// deep-copy type is fully deserialised.
    pub eps: bool,
}

#[derive(Clone, Debug, PartialEq, Eq, Hash)]
pub struct Variant {
    pub name: String,
    pub kind: VKind,
    pub fields: Vec<Field>,
}

/// Layout facts taken from the compiler for zero-copy user types.
#[derive(Clone, Debug, PartialEq, Eq, Hash)]
pub struct CLayout {
    pub size: usize,
    pub align: usize,
    /// Struct: offsets of the fields (from `offset_of!`).  Enum: empty (the
    /// `repr(C)` rules of the model are used and validated at start-up).
    pub offsets: Vec<usize>,
}

#[derive(Clone, Debug, PartialEq, Eq, Hash)]
pub struct User {
    /// Identifier only (what the derive hashes).
    pub name: String,
    /// Module path, for display and to tell twins apart.
    pub path: String,
    pub is_enum: bool,
    pub zero: bool,
    /// Token strings of every `repr(...)` attribute, in order.
    pub reprs: Vec<String>,
    /// Const generic parameters: name and value, declaration order.
    pub consts: Vec<(String, ConstVal)>,
    /// A struct has exactly one variant (with an empty name).
    pub variants: Vec<Variant>,
    pub layout: Option<CLayout>,
}

#[derive(Clone, Debug, PartialEq, Eq, Hash)]
pub enum Ty {
    Prim(Prim),
    Unit,
    Phantom(Box<Ty>),
    RangeFull,
    Str,
    BoxStr,
    Vec(Box<Ty>),
    BoxSlice(Box<Ty>),
    Array(Box<Ty>, usize),
    Tuple(Box<Ty>, usize),
    Opt(Box<Ty>),
    Range(RangeKind, Box<Ty>),
    Bound(Box<Ty>),
    Flow(Box<Ty>, Box<Ty>),
    User(Rc<User>),
}

impl Ty {
    /// `CopyType::Copy = Zero` in the library's classification.
    pub fn is_zero(&self) -> bool {
        match self {
            Ty::Prim(_) | Ty::Unit | Ty::Phantom(_) | Ty::RangeFull | Ty::Range(..) | Ty::Tuple(..) => true,
            Ty::Array(t, _) => t.is_zero(),
            Ty::User(u) => u.zero,
            _ => false,
        }
    }

    /// Human-readable Rust-like rendering (for evidence and replay files).
    pub fn show(&self) -> String {
        match self {
            Ty::Prim(p) => p.hash_name().to_string(),
            Ty::Unit => "()".into(),
            Ty::Phantom(t) => format!("PhantomData<{}>", t.show()),
            Ty::RangeFull => "RangeFull".into(),
            Ty::Str => "String".into(),
            Ty::BoxStr => "Box<str>".into(),
            Ty::Vec(t) => format!("Vec<{}>", t.show()),
            Ty::BoxSlice(t) => format!("Box<[{}]>", t.show()),
            Ty::Array(t, n) => format!("[{}; {}]", t.show(), n),
            Ty::Tuple(t, n) => format!("({}{})", format!("{},", t.show()).repeat(*n), ""),
            Ty::Opt(t) => format!("Option<{}>", t.show()),
            Ty::Range(k, t) => format!("{}<{}>", k.ident(), t.show()),
            Ty::Bound(t) => format!("Bound<{}>", t.show()),
            Ty::Flow(b, c) => format!("ControlFlow<{},{}>", b.show(), c.show()),
            Ty::User(u) => {
                let mut s = format!("{}::{}", u.path, u.name);
                let mut args: Vec<String> = u.consts.iter().map(|(n, v)| format!("{}={:?}", n, v)).collect();
                for v in &u.variants {
                    for f in &v.fields {
                        if f.eps {
                            args.push(format!("{}:{}", f.name, f.ty.show()));
                        }
                    }
                }
                if !args.is_empty() {
                    s.push_str(&format!("<{}>", args.join(",")));
                }
                s
            }
        }
    }

    /// Depth of constructor nesting.
    pub fn depth(&self) -> usize {
        match self {
            Ty::Phantom(t) | Ty::Vec(t) | Ty::BoxSlice(t) | Ty::Array(t, _) | Ty::Tuple(t, _) | Ty::Opt(t)
            | Ty::Range(_, t) | Ty::Bound(t) => 1 + t.depth(),
            Ty::Flow(b, c) => 1 + b.depth().max(c.depth()),
            Ty::User(u) => {
                1 + u.variants.iter().flat_map(|v| v.fields.iter()).map(|f| f.ty.depth()).max().unwrap_or(0)
            }
            _ => 0,
        }
    }

    /// Names of the constructors occurring in the type (for coverage stats).
    pub fn constructors(&self, out: &mut std::collections::BTreeSet<String>) {
        let name = match self {
            Ty::Prim(p) => p.hash_name().to_string(),
            Ty::Unit => "()".into(),
            Ty::Phantom(_) => "PhantomData".into(),
            Ty::RangeFull => "RangeFull".into(),
            Ty::Str => "String".into(),
            Ty::BoxStr => "Box<str>".into(),
            Ty::Vec(t) => if t.is_zero() { "Vec<zero>".into() } else { "Vec<deep>".into() },
            Ty::BoxSlice(t) => if t.is_zero() { "Box<[zero]>".into() } else { "Box<[deep]>".into() },
            Ty::Array(t, n) => format!("[{};{}]", if t.is_zero() { "zero" } else { "deep" }, if *n == 0 { "0" } else { "n" }),
            Ty::Tuple(_, n) => format!("tuple{}", n),
            Ty::Opt(_) => "Option".into(),
            Ty::Range(k, _) => k.ident().into(),
            Ty::Bound(_) => "Bound".into(),
            Ty::Flow(..) => "ControlFlow".into(),
            Ty::User(u) => format!(
                "user-{}-{}",
                if u.zero { "zero" } else { "deep" },
                if u.is_enum { "enum" } else { "struct" }
            ),
        };
        out.insert(name);
        match self {
            Ty::Phantom(t) | Ty::Vec(t) | Ty::BoxSlice(t) | Ty::Array(t, _) | Ty::Tuple(t, _) | Ty::Opt(t)
            | Ty::Range(_, t) | Ty::Bound(t) => t.constructors(out),
            Ty::Flow(b, c) => {
                b.constructors(out);
                c.constructors(out);
            }
            Ty::User(u) => {
                for v in &u.variants {
                    for f in &v.fields {
                        f.ty.constructors(out);
                    }
                }
            }
            _ => {}
        }
    }
}

/// A dynamic value.
#[derive(Clone, Debug, PartialEq, Eq, Hash)]
pub enum Val {
    /// Bit pattern of a primitive, zero-extended (two's complement truncated
    /// to the type's size; floats by bits; bool 0/1; char scalar value).
    P(u128),
    /// `()`, `PhantomData`, `RangeFull`.
    Z,
    Str(String),
    /// Vec, Box<[T]>, array, tuple.
    Seq(Vec<Val>),
    Opt(Option<Box<Val>>),
    /// Fields of a struct; `Idx` fields of a range (the `exhausted` flag of
    /// an inclusive range is never part of a value: it is always false).
    Struct(Vec<Val>),
    /// Variant index and fields (derived enums, `Bound` 0=Unbounded
    /// 1=Included 2=Excluded, `ControlFlow` 0=Break 1=Continue).
    Variant(usize, Vec<Val>),
}

impl Val {
    pub fn bits(&self) -> u128 {
        match self {
            Val::P(b) => *b,
            _ => panic!("model: Val::bits on {:?}", self),
        }
    }
    pub fn seq(&self) -> &[Val] {
        match self {
            Val::Seq(v) => v,
            _ => panic!("model: Val::seq on {:?}", self),
        }
    }
    pub fn fields(&self) -> &[Val] {
        match self {
            Val::Struct(v) => v,
            _ => panic!("model: Val::fields on {:?}", self),
        }
    }
    pub fn variant(&self) -> (usize, &[Val]) {
        match self {
            Val::Variant(i, v) => (*i, v),
            _ => panic!("model: Val::variant on {:?}", self),
        }
    }
    pub fn str(&self) -> &str {
        match self {
            Val::Str(s) => s,
            _ => panic!("model: Val::str on {:?}", self),
        }
    }
    pub fn opt(&self) -> Option<&Val> {
        match self {
            Val::Opt(o) => o.as_deref(),
            _ => panic!("model: Val::opt on {:?}", self),
        }
    }

    /// Compact rendering for evidence/replay (truncated).
    pub fn show(&self, budget: &mut usize) -> String {
        if *budget == 0 {
            return "…".into();
        }
        *budget -= 1;
        match self {
            Val::P(b) => format!("{:#x}", b),
            Val::Z => "()".into(),
            Val::Str(s) => format!("{:?}", s.chars().take(24).collect::<String>()),
            Val::Seq(v) => format!("[{}]", v.iter().take(8).map(|x| x.show(budget)).collect::<Vec<_>>().join(",")
                + if v.len() > 8 { ",…" } else { "" }),
            Val::Opt(None) => "None".into(),
            Val::Opt(Some(v)) => format!("Some({})", v.show(budget)),
            Val::Struct(v) => format!("{{{}}}", v.iter().map(|x| x.show(budget)).collect::<Vec<_>>().join(",")),
            Val::Variant(i, v) => format!("#{}({})", i, v.iter().map(|x| x.show(budget)).collect::<Vec<_>>().join(",")),
        }
    }

    /// A hash of the *shape* of the value (which variants, which emptiness,
    /// length classes) used to count distinct cases.
    pub fn shape_hash(&self) -> u64 {
        fn go(v: &Val, h: &mut u64) {
            let mix = |h: &mut u64, x: u64| {
                *h = (*h ^ x).wrapping_mul(0x100000001b3).rotate_left(17);
            };
            match v {
                Val::P(b) => mix(h, if *b == 0 { 1 } else { 2 }),
                Val::Z => mix(h, 3),
                Val::Str(s) => mix(h, 4 + (s.len().min(3) as u64) * 16 + if s.is_ascii() { 0 } else { 8 }),
                Val::Seq(s) => {
                    mix(h, 100 + s.len().min(3) as u64);
                    for x in s.iter().take(3) {
                        go(x, h);
                    }
                }
                Val::Opt(None) => mix(h, 5),
                Val::Opt(Some(x)) => {
                    mix(h, 6);
                    go(x, h)
                }
                Val::Struct(f) => {
                    mix(h, 7);
                    for x in f {
                        go(x, h);
                    }
                }
                Val::Variant(i, f) => {
                    mix(h, 1000 + *i as u64);
                    for x in f {
                        go(x, h);
                    }
                }
            }
        }
        let mut h = 0xcbf29ce484222325;
        go(self, &mut h);
        h
    }
}
