//! splitmix64: small, seedable, reproducible.
#[derive(Clone, Debug)]
pub struct Rng(pub u64);

impl Rng {
    pub fn new(seed: u64) -> Self {
        Rng(seed ^ 0x9E3779B97F4A7C15)
    }
    pub fn next(&mut self) -> u64 {
        self.0 = self.0.wrapping_add(0x9E3779B97F4A7C15);
        let mut z = self.0;
        z = (z ^ (z >> 30)).wrapping_mul(0xBF58476D1CE4E5B9);
        z = (z ^ (z >> 27)).wrapping_mul(0x94D049BB133111EB);
        z ^ (z >> 31)
    }
    pub fn below(&mut self, n: usize) -> usize {
        if n == 0 {
            0
        } else {
            (self.next() % n as u64) as usize
        }
    }
    pub fn chance(&mut self, num: usize, den: usize) -> bool {
        self.below(den) < num
    }
    pub fn pick<'a, T>(&mut self, xs: &'a [T]) -> &'a T {
        &xs[self.below(xs.len())]
    }
    pub fn u128(&mut self) -> u128 {
        ((self.next() as u128) << 64) | self.next() as u128
    }
    pub fn fork(&mut self, salt: u64) -> Rng {
        Rng::new(self.next() ^ salt.wrapping_mul(0xD6E8FEB86659FD93))
    }
}

/// Stable 64-bit hash of a string (FNV-1a), for per-root seeds.
pub fn fnv(s: &str) -> u64 {
    let mut h: u64 = 0xcbf29ce484222325;
    for b in s.bytes() {
        h ^= b as u64;
        h = h.wrapping_mul(0x100000001b3);
    }
    h
}
