//! Seeded value generator, payload scaling and a text form of `Val`.

use crate::rng::Rng;
use crate::ty::*;

#[derive(Clone, Debug)]
pub struct GenParams {
    /// Upper bound for sequence / string lengths.
    pub max_len: usize,
    /// Node budget for one value (keeps nested sequences small).
    pub budget: usize,
}

impl Default for GenParams {
    fn default() -> Self {
        GenParams { max_len: 9, budget: 400 }
    }
}

const CHARS: &[char] = &['a', 'Z', '0', ' ', '\0', '\u{7f}', 'é', 'ß', '€', '語', '😀', '\u{10FFFF}', '\u{D7FF}', '\u{E000}', '\u{FEFF}'];

fn mask(p: Prim) -> u128 {
    if p.size() == 16 {
        u128::MAX
    } else {
        (1u128 << (p.size() * 8)) - 1
    }
}

pub fn gen_prim(p: Prim, r: &mut Rng) -> u128 {
    use Prim::*;
    let m = mask(p);
    let bits = p.size() * 8;
    let v = match p {
        Bool => return r.below(2) as u128,
        Char => {
            return if r.chance(2, 3) {
                *r.pick(CHARS) as u128
            } else {
                loop {
                    let c = (r.next() % 0x110000) as u32;
                    if char::from_u32(c).is_some() {
                        break c as u128;
                    }
                }
            }
        }
        F32 => {
            let c: [u32; 10] = [0, 0x8000_0000, 0x3f80_0000, 0x7fc0_0000, 0x7fc0_1234, 0xffc0_0001, 0x7f80_0001, 0x7f80_0000, 0xff80_0000, 1];
            return if r.chance(1, 2) { *r.pick(&c) as u128 } else { (r.next() as u32) as u128 };
        }
        F64 => {
            let c: [u64; 9] = [0, 1 << 63, 0x3ff0_0000_0000_0000, 0x7ff8_0000_0000_0000, 0x7ff8_0000_dead_beef, 0xfff0_0000_0000_0001, 0x7ff0_0000_0000_0000, 0xfff0_0000_0000_0000, 1];
            return if r.chance(1, 2) { *r.pick(&c) as u128 } else { r.next() as u128 };
        }
        _ => match r.below(8) {
            0 => 0,
            1 => 1,
            2 => m,                    // unsigned max / signed -1
            3 => m >> 1,               // signed max
            4 => 1u128 << (bits - 1),  // signed min
            5 => 0x0102_0304_0506_0708_090a_0b0c_0d0e_0f10 & m,
            _ => r.u128() & m,
        },
    };
    if p.is_nonzero() && v == 0 {
        1 + (r.next() as u128 & 0x7f)
    } else {
        v
    }
}

fn gen_len(r: &mut Rng, p: &GenParams, budget: &mut usize) -> usize {
    let n = match r.below(10) {
        0 | 1 | 2 => 0,
        3 | 4 => 1,
        5 => 2,
        6 => 3,
        _ => r.below(p.max_len + 1),
    };
    let n = n.min(*budget);
    *budget = budget.saturating_sub(n);
    n
}

pub fn gen_str(r: &mut Rng, p: &GenParams, budget: &mut usize) -> String {
    let n = gen_len(r, p, budget);
    let ascii = r.chance(1, 2);
    (0..n)
        .map(|_| {
            if ascii {
                (b'a' + r.below(26) as u8) as char
            } else {
                *r.pick(CHARS)
            }
        })
        .collect()
}

pub fn gen_val(ty: &Ty, r: &mut Rng, p: &GenParams) -> Val {
    let mut budget = p.budget;
    go(ty, r, p, &mut budget)
}

fn go(ty: &Ty, r: &mut Rng, p: &GenParams, budget: &mut usize) -> Val {
    match ty {
        Ty::Prim(pr) => Val::P(gen_prim(*pr, r)),
        Ty::Unit | Ty::Phantom(_) | Ty::RangeFull => Val::Z,
        Ty::Str | Ty::BoxStr => Val::Str(gen_str(r, p, budget)),
        Ty::Vec(t) | Ty::BoxSlice(t) => {
            let n = gen_len(r, p, budget);
            Val::Seq((0..n).map(|_| go(t, r, p, budget)).collect())
        }
        Ty::Array(t, n) | Ty::Tuple(t, n) => Val::Seq((0..*n).map(|_| go(t, r, p, budget)).collect()),
        Ty::Opt(t) => {
            if r.chance(1, 3) {
                Val::Opt(None)
            } else {
                Val::Opt(Some(Box::new(go(t, r, p, budget))))
            }
        }
        Ty::Range(k, t) => Val::Struct((0..k.shape().0).map(|_| go(t, r, p, budget)).collect()),
        Ty::Bound(t) => match r.below(3) {
            0 => Val::Variant(0, vec![]),
            i => Val::Variant(i, vec![go(t, r, p, budget)]),
        },
        Ty::Flow(b, c) => {
            if r.chance(1, 2) {
                Val::Variant(0, vec![go(b, r, p, budget)])
            } else {
                Val::Variant(1, vec![go(c, r, p, budget)])
            }
        }
        Ty::User(u) => {
            if u.is_enum {
                let i = r.below(u.variants.len());
                Val::Variant(i, u.variants[i].fields.iter().map(|f| go(&f.ty, r, p, budget)).collect())
            } else {
                Val::Struct(u.variants[0].fields.iter().map(|f| go(&f.ty, r, p, budget)).collect())
            }
        }
    }
}

/// A value that exercises variant `vi` of the outermost sum type of `ty`
/// found along the first path (used to make sure every variant is seen).
pub fn gen_val_variant(ty: &Ty, vi: usize, r: &mut Rng, p: &GenParams) -> Option<Val> {
    let mut budget = p.budget;
    match ty {
        Ty::User(u) if u.is_enum && vi < u.variants.len() => {
            Some(Val::Variant(vi, u.variants[vi].fields.iter().map(|f| go(&f.ty, r, p, &mut budget)).collect()))
        }
        Ty::Bound(t) if vi < 3 => Some(if vi == 0 { Val::Variant(0, vec![]) } else { Val::Variant(vi, vec![go(t, r, p, &mut budget)]) }),
        Ty::Flow(b, c) if vi < 2 => Some(Val::Variant(vi, vec![go(if vi == 0 { b } else { c }, r, p, &mut budget)])),
        Ty::Opt(t) if vi < 2 => Some(if vi == 0 { Val::Opt(None) } else { Val::Opt(Some(Box::new(go(t, r, p, &mut budget)))) }),
        _ => None,
    }
}

/// Same skeleton, every sequence that an ε-copy deserialisation returns as a
/// borrowed slice / str made `k` times longer (at least `k` elements).
pub fn scale(ty: &Ty, val: &Val, eps: bool, k: usize) -> Val {
    match (ty, val) {
        (Ty::Str | Ty::BoxStr, Val::Str(s)) if eps => {
            let base = if s.is_empty() { "x".to_string() } else { s.clone() };
            Val::Str(base.repeat(k))
        }
        (Ty::Vec(t) | Ty::BoxSlice(t), Val::Seq(items)) => {
            if t.is_zero() {
                if !eps {
                    return val.clone();
                }
                if items.is_empty() {
                    // keep emptiness: an empty borrowed slice stays empty
                    return val.clone();
                }
                let mut out = Vec::with_capacity(items.len() * k);
                for _ in 0..k {
                    out.extend(items.iter().cloned());
                }
                Val::Seq(out)
            } else {
                Val::Seq(items.iter().map(|v| scale(t, v, eps, k)).collect())
            }
        }
        (Ty::Array(t, _), Val::Seq(items)) if !t.is_zero() => Val::Seq(items.iter().map(|v| scale(t, v, eps, k)).collect()),
        (Ty::Opt(t), Val::Opt(Some(v))) => Val::Opt(Some(Box::new(scale(t, v, eps, k)))),
        (Ty::Bound(t), Val::Variant(i, f)) if *i != 0 => Val::Variant(*i, vec![scale(t, &f[0], eps, k)]),
        (Ty::Flow(b, c), Val::Variant(i, f)) => Val::Variant(*i, vec![scale(if *i == 0 { b } else { c }, &f[0], eps, k)]),
        (Ty::User(u), Val::Struct(f)) if !u.zero => Val::Struct(
            u.variants[0].fields.iter().zip(f).map(|(fd, v)| scale(&fd.ty, v, eps && fd.eps, k)).collect(),
        ),
        (Ty::User(u), Val::Variant(i, f)) if !u.zero => Val::Variant(
            *i,
            u.variants[*i].fields.iter().zip(f).map(|(fd, v)| scale(&fd.ty, v, eps && fd.eps, k)).collect(),
        ),
        _ => val.clone(),
    }
}

// ---------------------------------------------------------------------------
// Text form of Val (corpus index, replay files)

pub fn val_to_text(v: &Val) -> String {
    let mut s = String::new();
    wr(v, &mut s);
    s
}

fn wr(v: &Val, s: &mut String) {
    match v {
        Val::P(b) => s.push_str(&format!("P{:x}", b)),
        Val::Z => s.push('Z'),
        Val::Str(x) => {
            s.push('S');
            for b in x.bytes() {
                s.push_str(&format!("{:02x}", b));
            }
            s.push(';');
        }
        Val::Seq(x) => {
            s.push('[');
            for (i, e) in x.iter().enumerate() {
                if i > 0 {
                    s.push(',');
                }
                wr(e, s);
            }
            s.push(']');
        }
        Val::Opt(None) => s.push('N'),
        Val::Opt(Some(x)) => {
            s.push_str("O(");
            wr(x, s);
            s.push(')');
        }
        Val::Struct(x) => {
            s.push_str("T(");
            for (i, e) in x.iter().enumerate() {
                if i > 0 {
                    s.push(',');
                }
                wr(e, s);
            }
            s.push(')');
        }
        Val::Variant(i, x) => {
            s.push_str(&format!("V{}(", i));
            for (j, e) in x.iter().enumerate() {
                if j > 0 {
                    s.push(',');
                }
                wr(e, s);
            }
            s.push(')');
        }
    }
}

pub fn val_from_text(s: &str) -> Option<Val> {
    let b = s.as_bytes();
    let mut i = 0;
    let v = rd(b, &mut i)?;
    if i == b.len() {
        Some(v)
    } else {
        None
    }
}

fn list(b: &[u8], i: &mut usize, close: u8) -> Option<Vec<Val>> {
    let mut out = vec![];
    if *b.get(*i)? == close {
        *i += 1;
        return Some(out);
    }
    loop {
        out.push(rd(b, i)?);
        match *b.get(*i)? {
            b',' => *i += 1,
            c if c == close => {
                *i += 1;
                return Some(out);
            }
            _ => return None,
        }
    }
}

fn rd(b: &[u8], i: &mut usize) -> Option<Val> {
    let c = *b.get(*i)?;
    *i += 1;
    match c {
        b'P' => {
            let st = *i;
            while *i < b.len() && (b[*i] as char).is_ascii_hexdigit() {
                *i += 1;
            }
            Some(Val::P(u128::from_str_radix(std::str::from_utf8(&b[st..*i]).ok()?, 16).ok()?))
        }
        b'Z' => Some(Val::Z),
        b'S' => {
            let st = *i;
            while *b.get(*i)? != b';' {
                *i += 1;
            }
            let hex = &b[st..*i];
            *i += 1;
            let mut bytes = vec![];
            for ch in hex.chunks(2) {
                bytes.push(u8::from_str_radix(std::str::from_utf8(ch).ok()?, 16).ok()?);
            }
            Some(Val::Str(String::from_utf8(bytes).ok()?))
        }
        b'[' => Some(Val::Seq(list(b, i, b']')?)),
        b'N' => Some(Val::Opt(None)),
        b'O' => {
            if *b.get(*i)? != b'(' {
                return None;
            }
            *i += 1;
            let v = rd(b, i)?;
            if *b.get(*i)? != b')' {
                return None;
            }
            *i += 1;
            Some(Val::Opt(Some(Box::new(v))))
        }
        b'T' => {
            if *b.get(*i)? != b'(' {
                return None;
            }
            *i += 1;
            Some(Val::Struct(list(b, i, b')')?))
        }
        b'V' => {
            let st = *i;
            while *i < b.len() && b[*i].is_ascii_digit() {
                *i += 1;
            }
            let n: usize = std::str::from_utf8(&b[st..*i]).ok()?.parse().ok()?;
            if *b.get(*i)? != b'(' {
                return None;
            }
            *i += 1;
            Some(Val::Variant(n, list(b, i, b')')?))
        }
        _ => None,
    }
}
