//! Outcome capture: errors mapped to plain enums, panics caught with their
//! message.

use std::cell::RefCell;
use std::panic::{catch_unwind, AssertUnwindSafe};
use std::sync::Once;

#[derive(Clone, Debug, PartialEq, Eq)]
pub enum Fail<E> {
    Err(E),
    Panic(String),
}

#[derive(Clone, Debug, PartialEq, Eq)]
pub enum SerErr {
    Write,
    FileOpen,
    IterLen { actual: usize, expected: usize },
}

#[derive(Clone, Debug, PartialEq, Eq)]
pub enum DeErr {
    FileOpen,
    Read,
    Endianness,
    Alignment,
    Major(u16),
    Minor(u16),
    UsizeSize(usize),
    Magic(u64),
    InvalidTag(usize),
    WrongTypeHash { ser: u64, slf: u64 },
    WrongAlignHash { ser: u64, slf: u64 },
    /// An error that is not a `deser::Error` (e.g. `std::io::Error` from the
    /// file-based loaders).
    Other(String),
}

impl DeErr {
    pub fn kind(&self) -> &'static str {
        match self {
            DeErr::FileOpen => "FileOpenError",
            DeErr::Read => "ReadError",
            DeErr::Endianness => "EndiannessError",
            DeErr::Alignment => "AlignmentError",
            DeErr::Major(_) => "MajorVersionMismatch",
            DeErr::Minor(_) => "MinorVersionMismatch",
            DeErr::UsizeSize(_) => "UsizeSizeMismatch",
            DeErr::Magic(_) => "MagicCookieError",
            DeErr::InvalidTag(_) => "InvalidTag",
            DeErr::WrongTypeHash { .. } => "WrongTypeHash",
            DeErr::WrongAlignHash { .. } => "WrongAlignHash",
            DeErr::Other(_) => "Other",
        }
    }
}

pub fn map_ser(e: epserde::ser::Error) -> SerErr {
    match e {
        epserde::ser::Error::WriteError => SerErr::Write,
        epserde::ser::Error::FileOpenError(_) => SerErr::FileOpen,
        epserde::ser::Error::IteratorLengthMismatch { actual, expected } => SerErr::IterLen { actual, expected },
    }
}

pub fn map_de(e: epserde::deser::Error) -> DeErr {
    use epserde::deser::Error as E;
    match e {
        E::FileOpenError(_) => DeErr::FileOpen,
        E::ReadError => DeErr::Read,
        E::EndiannessError => DeErr::Endianness,
        E::AlignmentError => DeErr::Alignment,
        E::MajorVersionMismatch(v) => DeErr::Major(v),
        E::MinorVersionMismatch(v) => DeErr::Minor(v),
        E::UsizeSizeMismatch(v) => DeErr::UsizeSize(v),
        E::MagicCookieError(v) => DeErr::Magic(v),
        E::InvalidTag(v) => DeErr::InvalidTag(v),
        E::WrongTypeHash { ser_type_hash, self_type_hash, .. } => DeErr::WrongTypeHash { ser: ser_type_hash, slf: self_type_hash },
        E::WrongAlignHash { ser_align_hash, self_align_hash, .. } => DeErr::WrongAlignHash { ser: ser_align_hash, slf: self_align_hash },
    }
}

pub fn map_anyhow(e: anyhow::Error) -> DeErr {
    match e.downcast::<epserde::deser::Error>() {
        Ok(d) => map_de(d),
        Err(e) => DeErr::Other(format!("{:#}", e)),
    }
}

thread_local! {
    static LAST_PANIC: RefCell<Option<String>> = const { RefCell::new(None) };
    static QUIET: std::cell::Cell<bool> = const { std::cell::Cell::new(false) };
}

static HOOK: Once = Once::new();

fn install_hook() {
    HOOK.call_once(|| {
        let prev = std::panic::take_hook();
        std::panic::set_hook(Box::new(move |info| {
            let msg = if let Some(s) = info.payload().downcast_ref::<&str>() {
                s.to_string()
            } else if let Some(s) = info.payload().downcast_ref::<String>() {
                s.clone()
            } else {
                "<non-string panic>".to_string()
            };
            let loc = info.location().map(|l| format!(" at {}:{}", l.file(), l.line())).unwrap_or_default();
            let quiet = QUIET.with(|q| q.get());
            LAST_PANIC.with(|p| *p.borrow_mut() = Some(format!("{}{}", msg, loc)));
            if !quiet {
                prev(info);
            }
        }));
    });
}

/// Run `f`, converting a panic into `Err(message)`.
pub fn guarded<T>(f: impl FnOnce() -> T) -> Result<T, String> {
    install_hook();
    let was = QUIET.with(|q| q.replace(true));
    let r = catch_unwind(AssertUnwindSafe(f));
    QUIET.with(|q| q.set(was));
    match r {
        Ok(v) => Ok(v),
        Err(_) => Err(LAST_PANIC.with(|p| p.borrow_mut().take()).unwrap_or_else(|| "<panic>".into())),
    }
}

pub fn flat<T, E>(r: Result<Result<T, E>, String>) -> Result<T, Fail<E>> {
    match r {
        Ok(Ok(v)) => Ok(v),
        Ok(Err(e)) => Err(Fail::Err(e)),
        Err(p) => Err(Fail::Panic(p)),
    }
}
