//! Fault-injecting writer and reader (both plain `std::io` implementors, so
//! the library reaches them through its blanket `WriteNoStd`/`ReadNoStd`
//! implementations, exactly like user code).

use model::rng::Rng;
use std::io::{self, ErrorKind, Read, Write};

#[derive(Clone, Debug)]
pub enum Chunk {
    /// Accept / return everything asked for.
    All,
    /// At most n bytes per call.
    Fixed(usize),
    /// Cycle through the given sizes.
    Cycle(Vec<usize>),
    /// Random sizes in 1..=max.
    Rand(Rng, usize),
}

impl Chunk {
    fn next(&mut self, call: usize, want: usize) -> usize {
        let n = match self {
            Chunk::All => want,
            Chunk::Fixed(n) => *n,
            Chunk::Cycle(v) => v[call % v.len()],
            Chunk::Rand(r, m) => 1 + r.below(*m),
        };
        n.max(1).min(want)
    }
}

#[derive(Debug)]
pub struct IoSink {
    /// Bytes accepted so far.
    pub data: Vec<u8>,
    /// Fail (ErrorKind::Other) as soon as the total would exceed this many
    /// bytes; bytes up to the limit are accepted first.
    pub fail_at: Option<usize>,
    /// Return `Ok(0)` instead of an error at the limit (→ WriteZero).
    pub zero_at_limit: bool,
    pub chunk: Chunk,
    /// Every n-th call returns `Interrupted` without accepting anything.
    pub interrupt_every: usize,
    pub flush_fails: bool,
    /// Error kind of the injected flush failure (a flush that keeps failing
    /// with Interrupted / WouldBlock is still a failed flush).
    pub flush_kind: ErrorKind,
    /// Transient fault: exactly this call (0-based, counted over non-empty
    /// writes) is rejected with ErrorKind::Other and accepts nothing; every
    /// other call is served normally.  `writes_after_error` counts the bytes
    /// offered after the rejection.
    pub reject_call: Option<usize>,
    pub data_calls: usize,
    pub rejected: bool,
    pub offered_after_error: usize,
    /// Runaway guard: more than this is refused and `overflow` is set.
    pub cap: usize,
    pub overflow: bool,
    pub calls: usize,
    pub flushes: usize,
    pub errors: usize,
}

impl Default for IoSink {
    fn default() -> Self {
        IoSink {
            data: Vec::new(),
            fail_at: None,
            zero_at_limit: false,
            chunk: Chunk::All,
            interrupt_every: 0,
            flush_fails: false,
            flush_kind: ErrorKind::Other,
            reject_call: None,
            data_calls: 0,
            rejected: false,
            offered_after_error: 0,
            cap: 1 << 24,
            overflow: false,
            calls: 0,
            flushes: 0,
            errors: 0,
        }
    }
}

impl IoSink {
    pub fn new() -> Self {
        Self::default()
    }
    pub fn failing_at(k: usize) -> Self {
        IoSink { fail_at: Some(k), ..Self::default() }
    }
}

impl Write for IoSink {
    fn write(&mut self, buf: &[u8]) -> io::Result<usize> {
        self.calls += 1;
        if buf.is_empty() {
            return Ok(0);
        }
        if self.interrupt_every != 0 && self.calls % self.interrupt_every == 0 {
            return Err(io::Error::new(ErrorKind::Interrupted, "injected interrupt"));
        }
        if self.rejected {
            self.offered_after_error += buf.len();
        }
        if Some(self.data_calls) == self.reject_call && !self.rejected {
            self.rejected = true;
            self.errors += 1;
            return Err(io::Error::new(ErrorKind::Other, "injected transient write failure"));
        }
        self.data_calls += 1;
        let mut n = self.chunk.next(self.calls, buf.len());
        if self.data.len() + n > self.cap {
            self.overflow = true;
            self.errors += 1;
            return Err(io::Error::new(ErrorKind::Other, "sink cap exceeded"));
        }
        if let Some(k) = self.fail_at {
            let room = k.saturating_sub(self.data.len());
            if room == 0 {
                self.errors += 1;
                return if self.zero_at_limit {
                    Ok(0)
                } else {
                    Err(io::Error::new(ErrorKind::Other, "injected write failure"))
                };
            }
            n = n.min(room);
        }
        self.data.extend_from_slice(&buf[..n]);
        Ok(n)
    }
    fn flush(&mut self) -> io::Result<()> {
        self.flushes += 1;
        if self.flush_fails {
            self.errors += 1;
            Err(io::Error::new(self.flush_kind, "injected flush failure"))
        } else {
            Ok(())
        }
    }
}

#[derive(Debug)]
pub struct IoReader<'a> {
    pub data: &'a [u8],
    pub pos: usize,
    /// A read that would cross this position returns the bytes before it and
    /// the next call fails with ErrorKind::Other.
    pub fail_at: Option<usize>,
    pub chunk: Chunk,
    pub interrupt_every: usize,
    pub calls: usize,
    pub errors: usize,
}

impl<'a> IoReader<'a> {
    pub fn new(data: &'a [u8]) -> Self {
        IoReader { data, pos: 0, fail_at: None, chunk: Chunk::All, interrupt_every: 0, calls: 0, errors: 0 }
    }
}

impl Read for IoReader<'_> {
    fn read(&mut self, buf: &mut [u8]) -> io::Result<usize> {
        self.calls += 1;
        if buf.is_empty() {
            return Ok(0);
        }
        if self.interrupt_every != 0 && self.calls % self.interrupt_every == 0 {
            return Err(io::Error::new(ErrorKind::Interrupted, "injected interrupt"));
        }
        let mut end = self.data.len();
        if let Some(k) = self.fail_at {
            if self.pos >= k {
                self.errors += 1;
                return Err(io::Error::new(ErrorKind::Other, "injected read failure"));
            }
            end = end.min(k);
        }
        let avail = end.saturating_sub(self.pos);
        if avail == 0 {
            return Ok(0);
        }
        let n = self.chunk.next(self.calls, buf.len()).min(avail);
        buf[..n].copy_from_slice(&self.data[self.pos..self.pos + n]);
        self.pos += n;
        Ok(n)
    }
}

/// A sink implementing the library's own `WriteNoStd` directly (the no-std
/// path): records every `write_all` as (offset, len) and can fail at the
/// n-th call or on flush.
#[derive(Debug, Default)]
pub struct NoStdSink {
    pub data: Vec<u8>,
    pub writes: Vec<(usize, usize)>,
    pub fail_call: Option<usize>,
    /// The failure is transient: later calls are accepted again.
    pub transient: bool,
    pub failed: bool,
    pub flush_fails: bool,
    pub flushes: usize,
}

impl epserde::ser::WriteNoStd for NoStdSink {
    fn write_all(&mut self, buf: &[u8]) -> epserde::ser::Result<()> {
        if Some(self.writes.len()) == self.fail_call && !(self.transient && self.failed) {
            self.failed = true;
            return Err(epserde::ser::Error::WriteError);
        }
        self.writes.push((self.data.len(), buf.len()));
        self.data.extend_from_slice(buf);
        Ok(())
    }
    fn flush(&mut self) -> epserde::ser::Result<()> {
        self.flushes += 1;
        if self.flush_fails {
            Err(epserde::ser::Error::WriteError)
        } else {
            Ok(())
        }
    }
}
