//! Hand-written helper types shared by all universes.
