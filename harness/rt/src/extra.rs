//! Hand-written helper types shared by all universes.

use crate::glue::*;
use epserde::prelude::*;
use model::*;
use std::rc::Rc;

/// A generic structure with a type-parameter field (ε-copied) and a scalar.
#[derive(Epserde, Debug, Clone)]
pub struct Holder<A> {
    pub a: A,
    pub n: u32,
}

impl<A: HasTy> HasTy for Holder<A> {
    fn ty() -> Ty {
        Ty::User(Rc::new(User {
            name: "Holder".into(),
            path: module_path!().into(),
            is_enum: false,
            zero: false,
            reprs: vec![],
            consts: vec![],
            variants: vec![Variant {
                name: "".into(),
                kind: VKind::Named,
                fields: vec![
                    Field { name: "a".into(), ty: A::ty(), eps: true },
                    Field { name: "n".into(), ty: Ty::Prim(Prim::U32), eps: false },
                ],
            }],
            layout: None,
        }))
    }
}

impl<A: Glue> Glue for Holder<A> {
    fn from_val(v: &Val) -> Self {
        let f = v.fields();
        Holder { a: A::from_val(&f[0]), n: u32::from_val(&f[1]) }
    }
    fn walk(&self, w: &mut Walker) -> Val {
        Val::Struct(vec![self.a.walk(w), self.n.walk(w)])
    }
}

impl<A: EpsWalk> EpsWalk for Holder<A> {
    fn eps_val(&self, w: &mut Walker) -> Val {
        Val::Struct(vec![self.a.eps_val(w), Val::P(self.n as u128)])
    }
}

/// An `ExactSizeIterator` that announces `announced` items and yields the
/// items of the slice.
pub struct Lying<'a, T> {
    pub items: std::slice::Iter<'a, T>,
    pub announced: usize,
}

impl<'a, T> Iterator for Lying<'a, T> {
    type Item = &'a T;
    fn next(&mut self) -> Option<&'a T> {
        self.items.next()
    }
    fn size_hint(&self) -> (usize, Option<usize>) {
        (self.announced, Some(self.announced))
    }
}

impl<T> ExactSizeIterator for Lying<'_, T> {
    fn len(&self) -> usize {
        self.announced
    }
}
