//! Tracking global allocator: per-thread counters (calls, bytes, live bytes)
//! and a small table of *protected* blocks whose deallocation is recorded as
//! an event (and skipped) instead of being performed.
//!
//! The bookkeeping never allocates: counters are const-initialised
//! thread-locals, the protected table is a fixed array of atomics.

use std::alloc::{GlobalAlloc, Layout, System};
use std::cell::Cell;
use std::sync::atomic::{AtomicBool, AtomicUsize, Ordering};

pub struct Tracking;

thread_local! {
    static ALLOCS: Cell<u64> = const { Cell::new(0) };
    static ALLOC_BYTES: Cell<u64> = const { Cell::new(0) };
    static FREES: Cell<u64> = const { Cell::new(0) };
    static LIVE: Cell<i64> = const { Cell::new(0) };
    static MAX_SINGLE: Cell<u64> = const { Cell::new(0) };
    static ZERO_SIZED: Cell<u64> = const { Cell::new(0) };
}

const NPROT: usize = 64;
static PROT: [AtomicUsize; NPROT] = [const { AtomicUsize::new(0) }; NPROT];
static PROT_ON: AtomicBool = AtomicBool::new(false);
static PROT_HITS: AtomicUsize = AtomicUsize::new(0);
static PROT_LAST: AtomicUsize = AtomicUsize::new(0);

#[derive(Clone, Copy, Debug, Default, PartialEq, Eq)]
pub struct Counters {
    pub allocs: u64,
    pub alloc_bytes: u64,
    pub frees: u64,
    pub live: i64,
    pub max_single: u64,
    /// Calls of `alloc` with a zero-sized layout (undefined behaviour for
    /// `GlobalAlloc::alloc`; Rust's collections never do it).
    pub zero_sized: u64,
}

impl Counters {
    pub fn since(&self, before: &Counters) -> Counters {
        Counters {
            allocs: self.allocs - before.allocs,
            alloc_bytes: self.alloc_bytes - before.alloc_bytes,
            frees: self.frees - before.frees,
            live: self.live - before.live,
            max_single: self.max_single,
            zero_sized: self.zero_sized - before.zero_sized,
        }
    }
}

pub fn counters() -> Counters {
    Counters {
        allocs: ALLOCS.with(|c| c.get()),
        alloc_bytes: ALLOC_BYTES.with(|c| c.get()),
        frees: FREES.with(|c| c.get()),
        live: LIVE.with(|c| c.get()),
        max_single: MAX_SINGLE.with(|c| c.get()),
        zero_sized: ZERO_SIZED.with(|c| c.get()),
    }
}

pub fn reset_max_single() {
    MAX_SINGLE.with(|c| c.set(0));
}

/// Protect the given blocks (address of their first byte) until
/// `unprotect_all`.  Returns false if the table is full.
pub fn protect(addrs: &[usize]) -> bool {
    let mut ok = true;
    for &a in addrs {
        if a == 0 {
            continue;
        }
        let mut placed = false;
        for slot in PROT.iter() {
            if slot.compare_exchange(0, a, Ordering::SeqCst, Ordering::SeqCst).is_ok() {
                placed = true;
                break;
            }
        }
        ok &= placed;
    }
    PROT_HITS.store(0, Ordering::SeqCst);
    PROT_ON.store(true, Ordering::SeqCst);
    ok
}

/// Stop protecting; returns (number of recorded deallocations of protected
/// blocks, address of the last one).
pub fn unprotect_all() -> (usize, usize) {
    PROT_ON.store(false, Ordering::SeqCst);
    for slot in PROT.iter() {
        slot.store(0, Ordering::SeqCst);
    }
    (PROT_HITS.swap(0, Ordering::SeqCst), PROT_LAST.swap(0, Ordering::SeqCst))
}

fn is_protected(p: usize) -> bool {
    PROT_ON.load(Ordering::Relaxed) && PROT.iter().any(|s| s.load(Ordering::Relaxed) == p)
}

unsafe impl GlobalAlloc for Tracking {
    unsafe fn alloc(&self, l: Layout) -> *mut u8 {
        if l.size() == 0 {
            let _ = ZERO_SIZED.try_with(|c| c.set(c.get() + 1));
        }
        let p = System.alloc(l);
        if !p.is_null() {
            let _ = ALLOCS.try_with(|c| c.set(c.get() + 1));
            let _ = ALLOC_BYTES.try_with(|c| c.set(c.get() + l.size() as u64));
            let _ = LIVE.try_with(|c| c.set(c.get() + l.size() as i64));
            let _ = MAX_SINGLE.try_with(|c| c.set(c.get().max(l.size() as u64)));
        }
        p
    }
    unsafe fn alloc_zeroed(&self, l: Layout) -> *mut u8 {
        let p = System.alloc_zeroed(l);
        if !p.is_null() {
            let _ = ALLOCS.try_with(|c| c.set(c.get() + 1));
            let _ = ALLOC_BYTES.try_with(|c| c.set(c.get() + l.size() as u64));
            let _ = LIVE.try_with(|c| c.set(c.get() + l.size() as i64));
            let _ = MAX_SINGLE.try_with(|c| c.set(c.get().max(l.size() as u64)));
        }
        p
    }
    unsafe fn dealloc(&self, p: *mut u8, l: Layout) {
        if is_protected(p as usize) {
            PROT_HITS.fetch_add(1, Ordering::SeqCst);
            PROT_LAST.store(p as usize, Ordering::SeqCst);
            return; // recorded, not performed: the owner frees it later
        }
        let _ = FREES.try_with(|c| c.set(c.get() + 1));
        let _ = LIVE.try_with(|c| c.set(c.get() - l.size() as i64));
        System.dealloc(p, l)
    }
    unsafe fn realloc(&self, p: *mut u8, l: Layout, new_size: usize) -> *mut u8 {
        if is_protected(p as usize) {
            // a protected block must not be resized either: emulate by a
            // fresh allocation and leave the original untouched
            PROT_HITS.fetch_add(1, Ordering::SeqCst);
            PROT_LAST.store(p as usize, Ordering::SeqCst);
            let nl = Layout::from_size_align_unchecked(new_size, l.align());
            let q = self.alloc(nl);
            if !q.is_null() {
                std::ptr::copy_nonoverlapping(p, q, l.size().min(new_size));
            }
            return q;
        }
        let q = System.realloc(p, l, new_size);
        if !q.is_null() {
            let _ = ALLOCS.try_with(|c| c.set(c.get() + 1));
            let _ = ALLOC_BYTES.try_with(|c| c.set(c.get() + new_size as u64));
            let _ = FREES.try_with(|c| c.set(c.get() + 1));
            let _ = LIVE.try_with(|c| c.set(c.get() + new_size as i64 - l.size() as i64));
            let _ = MAX_SINGLE.try_with(|c| c.set(c.get().max(new_size as u64)));
        }
        q
    }
}
