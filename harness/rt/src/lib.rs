//! Runtime of the monitors: glue traits, fault-injecting sinks/readers, the
//! event recorder, the tracking allocator, outcome capture, root tables.
pub mod alloc;
pub mod glue;
pub mod membuf;
pub mod outcome;
pub mod rec;
pub mod root;
pub mod sink;
pub mod extra;
pub mod seq;

pub use glue::*;
pub use outcome::*;
pub use root::*;
pub use sink::*;
pub use seq::*;
