//! Type-erased entry points for every root type of the universe.

use crate::alloc::Counters;
use crate::glue::*;
use crate::outcome::*;
use crate::rec::Ev;
use crate::sink::*;
use model::*;

#[derive(Clone, Debug)]
pub struct Row {
    pub field: String,
    pub ty: String,
    pub offset: usize,
    pub size: usize,
    pub align: usize,
}

#[derive(Clone, Debug)]
pub struct SchemaOut {
    pub rows: Vec<Row>,
    pub csv: Result<String, String>,
    pub debug: Result<String, String>,
}

#[derive(Clone, Copy, Debug, PartialEq, Eq)]
pub enum Loader {
    Mem,
    LoadMmap,
    Mmap,
}

/// A loaded `MemCase`, type-erased.
pub trait Case: Send + Sync {
    fn walk(&self, w: &mut Walker) -> Val;
    /// (address, length, backend kind 0=None 1=Memory 2=Mmap) from the hook.
    fn region(&self) -> Option<(usize, usize, u8)>;
}

#[derive(Clone, Debug)]
pub struct GuardedSer {
    pub result: Result<usize, Fail<SerErr>>,
    /// Deallocations / reallocations of blocks owned by the source value
    /// that happened during the call.
    pub protected_hits: usize,
    /// The source value re-read after the call.
    pub after: Val,
    pub protected_blocks: usize,
    /// The source value differs from what it was before the call.
    pub changed: bool,
}

pub trait Root: Send + Sync {
    /// The Rust type expression, as generated.
    fn name(&self) -> &'static str;
    fn ty(&self) -> Ty;
    /// `core::any::type_name` of the type (what the header must carry).
    fn type_name(&self) -> &'static str;
    /// Real (type hash, align hash) digests.
    fn hashes(&self) -> (u64, u64);
    /// `align_of` of the type itself (load_mem refuses types aligned beyond 64).
    fn align_of(&self) -> usize;
    fn ser(&self, v: &Val, sink: &mut IoSink) -> Result<usize, Fail<SerErr>>;
    fn ser_nostd(&self, v: &Val, sink: &mut NoStdSink) -> Result<usize, Fail<SerErr>>;
    fn ser_rec(&self, v: &Val, sink: &mut IoSink, evs: &mut Vec<Ev>) -> Result<usize, Fail<SerErr>>;
    fn ser_schema(&self, v: &Val, sink: &mut IoSink) -> Result<SchemaOut, Fail<SerErr>>;
    fn ser_guarded(&self, v: &Val, sink: &mut IoSink) -> GuardedSer;
    fn full(&self, rd: &mut IoReader) -> Result<Val, Fail<DeErr>>;
    fn eps(&self, buf: &[u8], w: &mut Walker) -> Result<(Val, Counters), Fail<DeErr>>;
    /// Outcome only (no walk): used where the result is expected to be an error.
    fn eps_outcome(&self, buf: &[u8]) -> Result<(), Fail<DeErr>>;
    /// Position of the ε-copy reader after header + value.
    fn eps_pos(&self, buf: &[u8]) -> Result<usize, Fail<DeErr>>;
    fn store(&self, v: &Val, path: &std::path::Path) -> Result<(), Fail<SerErr>>;
    fn load_full(&self, path: &std::path::Path) -> Result<Val, Fail<DeErr>>;
    fn load_case(&self, which: Loader, path: &std::path::Path, flags: u32) -> Result<Box<dyn Case>, Fail<DeErr>>;
}

/// Types used only as deserialisation targets in C04 (mutants, twins).
pub trait HashRoot: Send + Sync {
    fn name(&self) -> &'static str;
    fn ty(&self) -> Ty;
    fn hashes(&self) -> (u64, u64);
    fn full_outcome(&self, rd: &mut IoReader) -> Result<(), Fail<DeErr>>;
    fn eps_outcome(&self, buf: &[u8]) -> Result<(), Fail<DeErr>>;
}

pub fn real_hashes<T: epserde::traits::TypeHash + epserde::traits::AlignHash>() -> (u64, u64) {
    use core::hash::Hasher;
    let mut th = xxhash_rust::xxh3::Xxh3::new();
    T::type_hash(&mut th);
    let mut ah = xxhash_rust::xxh3::Xxh3::new();
    let mut off = 0;
    T::align_hash(&mut ah, &mut off);
    (th.finish(), ah.finish())
}

pub fn flags_of(bits: u32) -> epserde::deser::Flags {
    epserde::deser::Flags::from_bits_truncate(bits)
}

pub fn region_of<S>(c: &epserde::deser::MemCase<S>) -> Option<(usize, usize, u8)> {
    #[cfg(epserde_verif)]
    {
        c.verif_backing_region()
    }
    #[cfg(not(epserde_verif))]
    {
        let _ = c;
        None
    }
}

#[allow(unused_variables)]
pub fn load_case_generic<T: epserde::deser::Deserialize>(
    which: Loader,
    path: &std::path::Path,
    flags: u32,
) -> anyhow::Result<epserde::deser::MemCase<epserde::deser::DeserType<'static, T>>> {
    match which {
        Loader::Mem => T::load_mem(path),
        #[cfg(feature = "mmap")]
        Loader::LoadMmap => T::load_mmap(path, flags_of(flags)),
        #[cfg(feature = "mmap")]
        Loader::Mmap => T::mmap(path, flags_of(flags)),
        #[cfg(not(feature = "mmap"))]
        _ => Err(anyhow::anyhow!("mmap feature off")),
    }
}

#[macro_export]
macro_rules! hash_root {
    ($name:ident, $t:ty, $lit:expr) => {
        pub struct $name;
        impl $crate::root::HashRoot for $name {
            fn name(&self) -> &'static str {
                $lit
            }
            fn ty(&self) -> model::Ty {
                <$t as $crate::glue::HasTy>::ty()
            }
            fn hashes(&self) -> (u64, u64) {
                $crate::root::real_hashes::<$t>()
            }
            fn full_outcome(&self, rd: &mut $crate::sink::IoReader) -> Result<(), $crate::outcome::Fail<$crate::outcome::DeErr>> {
                use epserde::deser::Deserialize;
                $crate::outcome::flat($crate::outcome::guarded(|| {
                    <$t>::deserialize_full(rd).map(|_| ()).map_err($crate::outcome::map_de)
                }))
            }
            fn eps_outcome(&self, buf: &[u8]) -> Result<(), $crate::outcome::Fail<$crate::outcome::DeErr>> {
                use epserde::deser::Deserialize;
                $crate::outcome::flat($crate::outcome::guarded(|| {
                    <$t>::deserialize_eps(buf).map(|_| ()).map_err($crate::outcome::map_de)
                }))
            }
        }
    };
}

#[macro_export]
macro_rules! root {
    ($name:ident, $case:ident, $t:ty, $lit:expr) => {
        pub struct $name;
        pub struct $case(epserde::deser::MemCase<epserde::deser::DeserType<'static, $t>>);

        impl $crate::root::Case for $case {
            fn walk(&self, w: &mut $crate::glue::Walker) -> model::Val {
                <epserde::deser::DeserType<'static, $t> as $crate::glue::EpsWalk>::eps_val(&*self.0, w)
            }
            fn region(&self) -> Option<(usize, usize, u8)> {
                $crate::root::region_of(&self.0)
            }
        }

        impl $crate::root::Root for $name {
            fn name(&self) -> &'static str {
                $lit
            }
            fn ty(&self) -> model::Ty {
                <$t as $crate::glue::HasTy>::ty()
            }
            fn type_name(&self) -> &'static str {
                core::any::type_name::<$t>()
            }
            fn hashes(&self) -> (u64, u64) {
                $crate::root::real_hashes::<$t>()
            }
            fn align_of(&self) -> usize {
                core::mem::align_of::<$t>()
            }
            fn ser(&self, v: &model::Val, sink: &mut $crate::sink::IoSink) -> Result<usize, $crate::outcome::Fail<$crate::outcome::SerErr>> {
                use epserde::ser::Serialize;
                let x = <$t as $crate::glue::Glue>::from_val(v);
                $crate::outcome::flat($crate::outcome::guarded(|| x.serialize(sink).map_err($crate::outcome::map_ser)))
            }
            fn ser_nostd(&self, v: &model::Val, sink: &mut $crate::sink::NoStdSink) -> Result<usize, $crate::outcome::Fail<$crate::outcome::SerErr>> {
                use epserde::ser::Serialize;
                let x = <$t as $crate::glue::Glue>::from_val(v);
                $crate::outcome::flat($crate::outcome::guarded(|| x.serialize(sink).map_err($crate::outcome::map_ser)))
            }
            fn ser_rec(
                &self,
                v: &model::Val,
                sink: &mut $crate::sink::IoSink,
                evs: &mut Vec<$crate::rec::Ev>,
            ) -> Result<usize, $crate::outcome::Fail<$crate::outcome::SerErr>> {
                use epserde::ser::{Serialize, WriteWithPos};
                let x = <$t as $crate::glue::Glue>::from_val(v);
                $crate::outcome::flat($crate::outcome::guarded(|| {
                    let mut w = $crate::rec::RecWriter::new(sink, evs);
                    x.serialize_on_field_write(&mut w).map_err($crate::outcome::map_ser)?;
                    Ok(w.pos())
                }))
            }
            fn ser_schema(
                &self,
                v: &model::Val,
                sink: &mut $crate::sink::IoSink,
            ) -> Result<$crate::root::SchemaOut, $crate::outcome::Fail<$crate::outcome::SerErr>> {
                use epserde::ser::Serialize;
                let x = <$t as $crate::glue::Glue>::from_val(v);
                let schema = $crate::outcome::flat($crate::outcome::guarded(|| {
                    x.serialize_with_schema(sink).map_err($crate::outcome::map_ser)
                }))?;
                let rows = schema
                    .0
                    .iter()
                    .map(|r| $crate::root::Row {
                        field: r.field.clone(),
                        ty: r.ty.clone(),
                        offset: r.offset,
                        size: r.size,
                        align: r.align,
                    })
                    .collect();
                let csv = $crate::outcome::guarded(|| schema.to_csv());
                let mut data = sink.data.clone();
                // Padding inside zero-copy images is uninitialised memory that
                // the serializer copied into the stream: give those bytes a
                // value before a debugging aid formats them (Miri/valgrind
                // would otherwise blame the read, which no property forbids).
                let enc = model::enc::encode(&self.ty(), v, self.type_name());
                if enc.care.len() == data.len() {
                    for (b, c) in data.iter_mut().zip(&enc.care) {
                        if !*c {
                            *b = 0;
                        }
                    }
                }
                let debug = $crate::outcome::guarded(|| schema.debug(&data));
                Ok($crate::root::SchemaOut { rows, csv, debug })
            }
            fn ser_guarded(&self, v: &model::Val, sink: &mut $crate::sink::IoSink) -> $crate::root::GuardedSer {
                use epserde::ser::Serialize;
                use $crate::glue::Glue;
                let x = <$t>::from_val(v);
                let mut w = $crate::glue::Walker::default();
                let _ = x.walk(&mut w);
                let addrs: Vec<usize> = w.owned.iter().map(|o| o.ptr).collect();
                $crate::alloc::protect(&addrs);
                let result = $crate::outcome::flat($crate::outcome::guarded(|| x.serialize(sink).map_err($crate::outcome::map_ser)));
                let (hits, _) = $crate::alloc::unprotect_all();
                let after = if hits == 0 { x.to_val() } else { model::Val::Z };
                if hits != 0 {
                    // the value's heap blocks may have been handed to the
                    // allocator: do not touch or drop it
                    std::mem::forget(x);
                }
                { let changed = hits == 0 && after != *v; $crate::root::GuardedSer { result, protected_hits: hits, after, protected_blocks: addrs.len(), changed } }
            }
            fn full(&self, rd: &mut $crate::sink::IoReader) -> Result<model::Val, $crate::outcome::Fail<$crate::outcome::DeErr>> {
                use epserde::deser::Deserialize;
                use $crate::glue::Glue;
                $crate::outcome::flat($crate::outcome::guarded(|| {
                    <$t>::deserialize_full(rd).map(|x| x.to_val()).map_err($crate::outcome::map_de)
                }))
            }
            fn eps(
                &self,
                buf: &[u8],
                w: &mut $crate::glue::Walker,
            ) -> Result<(model::Val, $crate::alloc::Counters), $crate::outcome::Fail<$crate::outcome::DeErr>> {
                use epserde::deser::Deserialize;
                $crate::outcome::flat($crate::outcome::guarded(|| {
                    let c0 = $crate::alloc::counters();
                    let r = <$t>::deserialize_eps(buf);
                    let c1 = $crate::alloc::counters();
                    match r {
                        Ok(x) => Ok((<epserde::deser::DeserType<'_, $t> as $crate::glue::EpsWalk>::eps_val(&x, w), c1.since(&c0))),
                        Err(e) => Err($crate::outcome::map_de(e)),
                    }
                }))
            }
            fn eps_outcome(&self, buf: &[u8]) -> Result<(), $crate::outcome::Fail<$crate::outcome::DeErr>> {
                use epserde::deser::Deserialize;
                $crate::outcome::flat($crate::outcome::guarded(|| {
                    <$t>::deserialize_eps(buf).map(|_| ()).map_err($crate::outcome::map_de)
                }))
            }
            fn eps_pos(&self, buf: &[u8]) -> Result<usize, $crate::outcome::Fail<$crate::outcome::DeErr>> {
                use epserde::deser::DeserializeInner;
                $crate::outcome::flat($crate::outcome::guarded(|| {
                    let mut b = epserde::deser::SliceWithPos::new(buf);
                    epserde::deser::check_header::<$t>(&mut b).map_err($crate::outcome::map_de)?;
                    let _x = <$t>::_deserialize_eps_inner(&mut b).map_err($crate::outcome::map_de)?;
                    Ok(b.pos)
                }))
            }
            fn store(&self, v: &model::Val, path: &std::path::Path) -> Result<(), $crate::outcome::Fail<$crate::outcome::SerErr>> {
                use epserde::ser::Serialize;
                let x = <$t as $crate::glue::Glue>::from_val(v);
                $crate::outcome::flat($crate::outcome::guarded(|| x.store(path).map_err($crate::outcome::map_ser)))
            }
            fn load_full(&self, path: &std::path::Path) -> Result<model::Val, $crate::outcome::Fail<$crate::outcome::DeErr>> {
                use epserde::deser::Deserialize;
                use $crate::glue::Glue;
                $crate::outcome::flat($crate::outcome::guarded(|| {
                    <$t>::load_full(path).map(|x| x.to_val()).map_err($crate::outcome::map_anyhow)
                }))
            }
            fn load_case(
                &self,
                which: $crate::root::Loader,
                path: &std::path::Path,
                flags: u32,
            ) -> Result<Box<dyn $crate::root::Case>, $crate::outcome::Fail<$crate::outcome::DeErr>> {
                use epserde::deser::Deserialize;
                $crate::outcome::flat($crate::outcome::guarded(|| {
                    let r = $crate::root::load_case_generic::<$t>(which, path, flags);
                    match r {
                        Ok(c) => Ok(Box::new($case(c)) as Box<dyn $crate::root::Case>),
                        Err(e) => Err($crate::outcome::map_anyhow(e)),
                    }
                }))
            }
        }
    };
}
