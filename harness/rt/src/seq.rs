//! Type-erased entry points for slices, exact-size iterators and structures
//! holding them (C16, and the borrowed sources of C13).

use crate::outcome::*;
use crate::root::GuardedSer;
use crate::sink::*;
use model::*;

#[derive(Clone, Copy, Debug, PartialEq, Eq)]
pub enum Src {
    /// `Vec<T>`
    Vec,
    /// `&[T]`
    Slice,
    /// `SerIter` over `slice.iter()` (zero-copy elements only)
    Iter,
    /// `Holder<Vec<T>>`
    HVec,
    /// `Holder<&[T]>`
    HSlice,
    /// `Holder<SerIter>`
    HIter,
    /// `Holder<Holder<&[T]>>`
    HHSlice,
    /// `Holder<Holder<Vec<T>>>`
    HHVec,
}

pub trait SeqRoot: Send + Sync {
    fn name(&self) -> &'static str;
    fn elem_ty(&self) -> Ty;
    fn supports(&self, s: Src) -> bool;
    /// `v` is a `Val::Seq` of elements; `n` the scalar of the holders.
    fn ser(&self, s: Src, v: &Val, n: u32, sink: &mut IoSink) -> GuardedSer;
    /// Iterator announcing `announced` items, yielding those of `v`.
    fn ser_lying(&self, v: &Val, announced: usize, sink: &mut IoSink) -> Result<usize, Fail<SerErr>>;
    /// Deserialise as `Vec<T>` / `Holder<Vec<T>>` / `Holder<Holder<Vec<T>>>` (nesting 0,1,2).
    fn de_full(&self, nesting: usize, rd: &mut IoReader) -> Result<Val, Fail<DeErr>>;
    fn de_eps(&self, nesting: usize, buf: &[u8]) -> Result<Val, Fail<DeErr>>;
    /// (type hash, align hash) of the source type's SerType as the library computes it.
    fn hashes(&self, s: Src) -> Option<(u64, u64)>;
}

#[macro_export]
macro_rules! seq_root {
    (@common $t:ty) => {
        fn elem_ty(&self) -> model::Ty {
            <$t as $crate::glue::HasTy>::ty()
        }
        fn de_full(&self, nesting: usize, rd: &mut $crate::sink::IoReader) -> Result<model::Val, $crate::outcome::Fail<$crate::outcome::DeErr>> {
            use epserde::deser::Deserialize;
            use $crate::extra::Holder;
            use $crate::glue::Glue;
            $crate::outcome::flat($crate::outcome::guarded(|| match nesting {
                0 => <Vec<$t>>::deserialize_full(rd).map(|x| x.to_val()).map_err($crate::outcome::map_de),
                1 => <Holder<Vec<$t>>>::deserialize_full(rd).map(|x| x.to_val()).map_err($crate::outcome::map_de),
                _ => <Holder<Holder<Vec<$t>>>>::deserialize_full(rd).map(|x| x.to_val()).map_err($crate::outcome::map_de),
            }))
        }
        fn de_eps(&self, nesting: usize, buf: &[u8]) -> Result<model::Val, $crate::outcome::Fail<$crate::outcome::DeErr>> {
            use epserde::deser::Deserialize;
            use $crate::extra::Holder;
            use $crate::glue::EpsWalk;
            let mut w = $crate::glue::Walker::default();
            $crate::outcome::flat($crate::outcome::guarded(|| match nesting {
                0 => <Vec<$t>>::deserialize_eps(buf).map(|x| x.eps_val(&mut w)).map_err($crate::outcome::map_de),
                1 => <Holder<Vec<$t>>>::deserialize_eps(buf).map(|x| x.eps_val(&mut w)).map_err($crate::outcome::map_de),
                _ => <Holder<Holder<Vec<$t>>>>::deserialize_eps(buf).map(|x| x.eps_val(&mut w)).map_err($crate::outcome::map_de),
            }))
        }
    };
    (@guard $vec:ident, $sink:ident, $body:expr) => {{
        use $crate::glue::Glue;
        let mut w = $crate::glue::Walker::default();
        let before = $vec.walk(&mut w);
        let addrs: Vec<usize> = w.owned.iter().map(|o| o.ptr).collect();
        $crate::alloc::protect(&addrs);
        let result = $crate::outcome::flat($crate::outcome::guarded(|| $body.map_err($crate::outcome::map_ser)));
        let (hits, _) = $crate::alloc::unprotect_all();
        let after = if hits == 0 { $vec.to_val() } else { model::Val::Z };
        let changed = hits == 0 && after != before;
        if hits != 0 {
            std::mem::forget($vec);
        }
        $crate::root::GuardedSer { result, protected_hits: hits, after, protected_blocks: addrs.len(), changed }
    }};
    (zero, $name:ident, $t:ty, $lit:expr) => {
        pub struct $name;
        impl $crate::seq::SeqRoot for $name {
            fn name(&self) -> &'static str {
                $lit
            }
            $crate::seq_root!(@common $t);
            fn supports(&self, _s: $crate::seq::Src) -> bool {
                true
            }
            fn ser(&self, s: $crate::seq::Src, v: &model::Val, n: u32, sink: &mut $crate::sink::IoSink) -> $crate::root::GuardedSer {
                use epserde::impls::iter::SerIter;
                use epserde::ser::Serialize;
                use $crate::extra::Holder;
                use $crate::seq::Src;
                let vec: Vec<$t> = <Vec<$t> as $crate::glue::Glue>::from_val(v);
                match s {
                    Src::Vec => $crate::seq_root!(@guard vec, sink, vec.serialize(sink)),
                    Src::Slice => $crate::seq_root!(@guard vec, sink, { let s: &[$t] = &vec[..]; s.serialize(sink) }),
                    Src::Iter => $crate::seq_root!(@guard vec, sink, SerIter::from(vec.iter()).serialize(sink)),
                    Src::HVec => {
                        let h = Holder { a: vec, n };
                        $crate::seq_root!(@guard h, sink, h.serialize(sink))
                    }
                    Src::HSlice => $crate::seq_root!(@guard vec, sink, Holder { a: &vec[..], n }.serialize(sink)),
                    Src::HIter => $crate::seq_root!(@guard vec, sink, Holder { a: SerIter::from(vec.iter()), n }.serialize(sink)),
                    Src::HHSlice => $crate::seq_root!(@guard vec, sink, Holder { a: Holder { a: &vec[..], n }, n: n ^ 0x55 }.serialize(sink)),
                    Src::HHVec => {
                        let h = Holder { a: Holder { a: vec, n }, n: n ^ 0x55 };
                        $crate::seq_root!(@guard h, sink, h.serialize(sink))
                    }
                }
            }
            fn ser_lying(&self, v: &model::Val, announced: usize, sink: &mut $crate::sink::IoSink) -> Result<usize, $crate::outcome::Fail<$crate::outcome::SerErr>> {
                use epserde::impls::iter::SerIter;
                use epserde::ser::Serialize;
                let vec: Vec<$t> = <Vec<$t> as $crate::glue::Glue>::from_val(v);
                $crate::outcome::flat($crate::outcome::guarded(|| {
                    let it = $crate::extra::Lying { items: vec.iter(), announced };
                    SerIter::from(it).serialize(sink).map_err($crate::outcome::map_ser)
                }))
            }
            fn hashes(&self, s: $crate::seq::Src) -> Option<(u64, u64)> {
                use epserde::impls::iter::SerIter;
                use $crate::extra::Holder;
                use $crate::seq::Src;
                Some(match s {
                    Src::Vec => $crate::root::real_hashes::<Vec<$t>>(),
                    Src::Slice => $crate::root::real_hashes::<&[$t]>(),
                    Src::Iter => $crate::root::real_hashes::<SerIter<'static, $t, std::slice::Iter<'static, $t>>>(),
                    Src::HVec => $crate::root::real_hashes::<Holder<Vec<$t>>>(),
                    Src::HSlice => $crate::root::real_hashes::<Holder<&[$t]>>(),
                    Src::HIter => $crate::root::real_hashes::<Holder<SerIter<'static, $t, std::slice::Iter<'static, $t>>>>(),
                    Src::HHSlice => $crate::root::real_hashes::<Holder<Holder<&[$t]>>>(),
                    Src::HHVec => $crate::root::real_hashes::<Holder<Holder<Vec<$t>>>>(),
                })
            }
        }
    };
    (deep, $name:ident, $t:ty, $lit:expr) => {
        pub struct $name;
        impl $crate::seq::SeqRoot for $name {
            fn name(&self) -> &'static str {
                $lit
            }
            $crate::seq_root!(@common $t);
            fn supports(&self, s: $crate::seq::Src) -> bool {
                !matches!(s, $crate::seq::Src::Iter | $crate::seq::Src::HIter)
            }
            fn ser(&self, s: $crate::seq::Src, v: &model::Val, n: u32, sink: &mut $crate::sink::IoSink) -> $crate::root::GuardedSer {
                use epserde::ser::Serialize;
                use $crate::extra::Holder;
                use $crate::seq::Src;
                let vec: Vec<$t> = <Vec<$t> as $crate::glue::Glue>::from_val(v);
                match s {
                    Src::Vec => $crate::seq_root!(@guard vec, sink, vec.serialize(sink)),
                    Src::Slice => $crate::seq_root!(@guard vec, sink, { let s: &[$t] = &vec[..]; s.serialize(sink) }),
                    Src::HVec => {
                        let h = Holder { a: vec, n };
                        $crate::seq_root!(@guard h, sink, h.serialize(sink))
                    }
                    Src::HSlice => $crate::seq_root!(@guard vec, sink, Holder { a: &vec[..], n }.serialize(sink)),
                    Src::HHSlice => $crate::seq_root!(@guard vec, sink, Holder { a: Holder { a: &vec[..], n }, n: n ^ 0x55 }.serialize(sink)),
                    Src::HHVec => {
                        let h = Holder { a: Holder { a: vec, n }, n: n ^ 0x55 };
                        $crate::seq_root!(@guard h, sink, h.serialize(sink))
                    }
                    Src::Iter | Src::HIter => $crate::root::GuardedSer {
                        result: Err($crate::outcome::Fail::Panic("unsupported".into())),
                        protected_hits: 0,
                        after: model::Val::Z,
                        protected_blocks: 0,
                        changed: false,
                    },
                }
            }
            fn ser_lying(&self, _v: &model::Val, _announced: usize, _sink: &mut $crate::sink::IoSink) -> Result<usize, $crate::outcome::Fail<$crate::outcome::SerErr>> {
                Err($crate::outcome::Fail::Panic("unsupported".into()))
            }
            fn hashes(&self, s: $crate::seq::Src) -> Option<(u64, u64)> {
                use $crate::extra::Holder;
                use $crate::seq::Src;
                Some(match s {
                    Src::Vec => $crate::root::real_hashes::<Vec<$t>>(),
                    Src::Slice => $crate::root::real_hashes::<&[$t]>(),
                    Src::HVec => $crate::root::real_hashes::<Holder<Vec<$t>>>(),
                    Src::HSlice => $crate::root::real_hashes::<Holder<&[$t]>>(),
                    Src::HHSlice => $crate::root::real_hashes::<Holder<Holder<&[$t]>>>(),
                    Src::HHVec => $crate::root::real_hashes::<Holder<Holder<Vec<$t>>>>(),
                    _ => return None,
                })
            }
        }
    };
}
