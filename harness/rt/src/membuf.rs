//! Exact-size, placement-controlled byte buffers.

use std::alloc::{alloc, dealloc, Layout};

/// A heap block of exactly `shift + len` bytes whose base is `base_align`
/// aligned; the payload starts `shift` bytes into it.  Because the block has
/// no slack, any access past the payload is a heap-buffer-overflow for ASan,
/// an out-of-bounds access for Miri and an invalid read for valgrind.
pub struct PlacedBuf {
    ptr: *mut u8,
    layout: Option<Layout>,
    shift: usize,
    len: usize,
}

unsafe impl Send for PlacedBuf {}

impl PlacedBuf {
    pub fn new(data: &[u8], base_align: usize, shift: usize) -> Self {
        let total = shift + data.len();
        if total == 0 {
            return PlacedBuf { ptr: base_align as *mut u8, layout: None, shift: 0, len: 0 };
        }
        let layout = Layout::from_size_align(total, base_align).unwrap();
        let ptr = unsafe { alloc(layout) };
        assert!(!ptr.is_null());
        unsafe {
            // deterministic, non-zero filler before the payload
            std::ptr::write_bytes(ptr, 0xA5, shift);
            std::ptr::copy_nonoverlapping(data.as_ptr(), ptr.add(shift), data.len());
        }
        PlacedBuf { ptr, layout: Some(layout), shift, len: data.len() }
    }
    /// Base aligned to 256 (a multiple of every alignment unit of the
    /// universes; larger alignments make every allocation page-sized under
    /// ASan, whose quarantine then holds gigabytes).
    pub fn aligned(data: &[u8]) -> Self {
        Self::new(data, 256, 0)
    }
    pub fn bytes(&self) -> &[u8] {
        unsafe { std::slice::from_raw_parts(self.ptr.add(self.shift), self.len) }
    }
    pub fn addr(&self) -> usize {
        self.ptr as usize + self.shift
    }
}

impl Drop for PlacedBuf {
    fn drop(&mut self) {
        if let Some(l) = self.layout {
            unsafe { dealloc(self.ptr, l) }
        }
    }
}

/// Snapshot of /proc/self/maps as a sorted list of (start, end, perms, path).
pub fn proc_maps() -> Vec<(usize, usize, String, String)> {
    let s = std::fs::read_to_string("/proc/self/maps").unwrap_or_default();
    let mut out = vec![];
    for line in s.lines() {
        let mut it = line.split_whitespace();
        let range = it.next().unwrap_or("");
        let perms = it.next().unwrap_or("").to_string();
        let _off = it.next();
        let _dev = it.next();
        let _ino = it.next();
        let path = it.next().unwrap_or("").to_string();
        if let Some((a, b)) = range.split_once('-') {
            if let (Ok(a), Ok(b)) = (usize::from_str_radix(a, 16), usize::from_str_radix(b, 16)) {
                out.push((a, b, perms, path));
            }
        }
    }
    out
}
