//! Glue between real Rust values and the model: `HasTy` (descriptor),
//! `Glue` (value ⇄ `Val`, recording owned heap blocks) and `EpsWalk` (typed
//! walk of ε-copy results, recording every borrowed part).

use model::*;
use std::marker::PhantomData;
use std::ops::{Bound, ControlFlow, Range, RangeFrom, RangeFull, RangeInclusive, RangeTo, RangeToInclusive};

pub const PART_SLICE: u8 = 0;
pub const PART_STR: u8 = 1;
pub const PART_REF: u8 = 2;

#[derive(Clone, Debug, PartialEq, Eq)]
pub struct Part {
    pub kind: u8,
    pub ptr: usize,
    pub count: usize,
    pub esize: usize,
    pub ealign: usize,
}

#[derive(Clone, Debug, PartialEq, Eq)]
pub struct OwnedBlk {
    pub ptr: usize,
    pub bytes: usize,
}

#[derive(Default, Debug)]
pub struct Walker {
    /// Borrowed parts in walk (= declaration = stream) order.
    pub parts: Vec<Part>,
    /// Heap blocks of rebuilt containers.
    pub owned: Vec<OwnedBlk>,
}

pub trait HasTy {
    fn ty() -> Ty;
}

pub trait Glue: HasTy + Sized {
    fn from_val(v: &Val) -> Self;
    /// Convert to a `Val`, recording the heap blocks owned by the value.
    fn walk(&self, w: &mut Walker) -> Val;
    fn to_val(&self) -> Val {
        self.walk(&mut Walker::default())
    }
}

/// Implemented on the *result* types of ε-copy deserialisation.
pub trait EpsWalk {
    fn eps_val(&self, w: &mut Walker) -> Val;
}

// --------------------------------------------------------------------------
// primitives

macro_rules! prim_glue {
    ($($t:ty => $p:ident, $from:expr, $to:expr;)*) => {$(
        impl HasTy for $t { fn ty() -> Ty { Ty::Prim(Prim::$p) } }
        impl Glue for $t {
            #[allow(clippy::redundant_closure_call)]
            fn from_val(v: &Val) -> Self { ($from)(v.bits()) }
            #[allow(clippy::redundant_closure_call)]
            fn walk(&self, _w: &mut Walker) -> Val { Val::P(($to)(*self)) }
        }
        impl EpsWalk for $t {
            fn eps_val(&self, w: &mut Walker) -> Val { self.walk(w) }
        }
    )*};
}

use std::num::*;
prim_glue! {
    u8 => U8, |b: u128| b as u8, |x: u8| x as u128;
    u16 => U16, |b: u128| b as u16, |x: u16| x as u128;
    u32 => U32, |b: u128| b as u32, |x: u32| x as u128;
    u64 => U64, |b: u128| b as u64, |x: u64| x as u128;
    u128 => U128, |b: u128| b, |x: u128| x;
    usize => Usize, |b: u128| b as usize, |x: usize| x as u128;
    i8 => I8, |b: u128| b as u8 as i8, |x: i8| x as u8 as u128;
    i16 => I16, |b: u128| b as u16 as i16, |x: i16| x as u16 as u128;
    i32 => I32, |b: u128| b as u32 as i32, |x: i32| x as u32 as u128;
    i64 => I64, |b: u128| b as u64 as i64, |x: i64| x as u64 as u128;
    i128 => I128, |b: u128| b as i128, |x: i128| x as u128;
    isize => Isize, |b: u128| b as u64 as isize, |x: isize| x as u64 as u128;
    f32 => F32, |b: u128| f32::from_bits(b as u32), |x: f32| x.to_bits() as u128;
    f64 => F64, |b: u128| f64::from_bits(b as u64), |x: f64| x.to_bits() as u128;
    NonZeroU8 => NzU8, |b: u128| NonZeroU8::new(b as u8).unwrap(), |x: NonZeroU8| x.get() as u128;
    NonZeroU16 => NzU16, |b: u128| NonZeroU16::new(b as u16).unwrap(), |x: NonZeroU16| x.get() as u128;
    NonZeroU32 => NzU32, |b: u128| NonZeroU32::new(b as u32).unwrap(), |x: NonZeroU32| x.get() as u128;
    NonZeroU64 => NzU64, |b: u128| NonZeroU64::new(b as u64).unwrap(), |x: NonZeroU64| x.get() as u128;
    NonZeroU128 => NzU128, |b: u128| NonZeroU128::new(b).unwrap(), |x: NonZeroU128| x.get();
    NonZeroUsize => NzUsize, |b: u128| NonZeroUsize::new(b as usize).unwrap(), |x: NonZeroUsize| x.get() as u128;
    NonZeroI8 => NzI8, |b: u128| NonZeroI8::new(b as u8 as i8).unwrap(), |x: NonZeroI8| x.get() as u8 as u128;
    NonZeroI16 => NzI16, |b: u128| NonZeroI16::new(b as u16 as i16).unwrap(), |x: NonZeroI16| x.get() as u16 as u128;
    NonZeroI32 => NzI32, |b: u128| NonZeroI32::new(b as u32 as i32).unwrap(), |x: NonZeroI32| x.get() as u32 as u128;
    NonZeroI64 => NzI64, |b: u128| NonZeroI64::new(b as u64 as i64).unwrap(), |x: NonZeroI64| x.get() as u64 as u128;
    NonZeroI128 => NzI128, |b: u128| NonZeroI128::new(b as i128).unwrap(), |x: NonZeroI128| x.get() as u128;
    NonZeroIsize => NzIsize, |b: u128| NonZeroIsize::new(b as u64 as isize).unwrap(), |x: NonZeroIsize| x.get() as u64 as u128;
    bool => Bool, |b: u128| b != 0, |x: bool| x as u128;
    char => Char, |b: u128| char::from_u32(b as u32).unwrap(), |x: char| x as u32 as u128;
}

// --------------------------------------------------------------------------
// zero-sized leaves

impl HasTy for () {
    fn ty() -> Ty {
        Ty::Unit
    }
}
impl Glue for () {
    fn from_val(_: &Val) -> Self {}
    fn walk(&self, _: &mut Walker) -> Val {
        Val::Z
    }
}
impl EpsWalk for () {
    fn eps_val(&self, _: &mut Walker) -> Val {
        Val::Z
    }
}
impl<T: HasTy + ?Sized> HasTy for PhantomData<T> {
    fn ty() -> Ty {
        Ty::Phantom(Box::new(T::ty()))
    }
}
impl<T: HasTy + ?Sized> Glue for PhantomData<T> {
    fn from_val(_: &Val) -> Self {
        PhantomData
    }
    fn walk(&self, _: &mut Walker) -> Val {
        Val::Z
    }
}
impl<T: ?Sized> EpsWalk for PhantomData<T> {
    fn eps_val(&self, _: &mut Walker) -> Val {
        Val::Z
    }
}
impl HasTy for RangeFull {
    fn ty() -> Ty {
        Ty::RangeFull
    }
}
impl Glue for RangeFull {
    fn from_val(_: &Val) -> Self {
        RangeFull
    }
    fn walk(&self, _: &mut Walker) -> Val {
        Val::Z
    }
}
impl EpsWalk for RangeFull {
    fn eps_val(&self, _: &mut Walker) -> Val {
        Val::Z
    }
}

// --------------------------------------------------------------------------
// strings

impl HasTy for String {
    fn ty() -> Ty {
        Ty::Str
    }
}
impl Glue for String {
    fn from_val(v: &Val) -> Self {
        v.str().to_string()
    }
    fn walk(&self, w: &mut Walker) -> Val {
        if self.capacity() > 0 {
            w.owned.push(OwnedBlk { ptr: self.as_ptr() as usize, bytes: self.capacity() });
        }
        Val::Str(self.clone())
    }
}
impl HasTy for Box<str> {
    fn ty() -> Ty {
        Ty::BoxStr
    }
}
impl Glue for Box<str> {
    fn from_val(v: &Val) -> Self {
        v.str().to_string().into_boxed_str()
    }
    fn walk(&self, w: &mut Walker) -> Val {
        if !self.is_empty() {
            w.owned.push(OwnedBlk { ptr: self.as_ptr() as usize, bytes: self.len() });
        }
        Val::Str(self.to_string())
    }
}
impl EpsWalk for &str {
    fn eps_val(&self, w: &mut Walker) -> Val {
        w.parts.push(Part { kind: PART_STR, ptr: self.as_ptr() as usize, count: self.len(), esize: 1, ealign: 1 });
        // read every byte in harness code (sanitizers see the access)
        Val::Str(String::from_utf8_lossy(self.as_bytes()).into_owned())
    }
}

// --------------------------------------------------------------------------
// sequences

impl<T: HasTy> HasTy for Vec<T> {
    fn ty() -> Ty {
        Ty::Vec(Box::new(T::ty()))
    }
}
impl<T: Glue> Glue for Vec<T> {
    fn from_val(v: &Val) -> Self {
        v.seq().iter().map(T::from_val).collect()
    }
    fn walk(&self, w: &mut Walker) -> Val {
        if self.capacity() * std::mem::size_of::<T>() > 0 {
            w.owned.push(OwnedBlk { ptr: self.as_ptr() as usize, bytes: self.capacity() * std::mem::size_of::<T>() });
        }
        Val::Seq(self.iter().map(|x| x.walk(w)).collect())
    }
}
impl<T: HasTy> HasTy for Box<[T]> {
    fn ty() -> Ty {
        Ty::BoxSlice(Box::new(T::ty()))
    }
}
impl<T: Glue> Glue for Box<[T]> {
    fn from_val(v: &Val) -> Self {
        v.seq().iter().map(T::from_val).collect::<Vec<_>>().into_boxed_slice()
    }
    fn walk(&self, w: &mut Walker) -> Val {
        if std::mem::size_of_val::<[T]>(self) > 0 {
            w.owned.push(OwnedBlk { ptr: self.as_ptr() as usize, bytes: std::mem::size_of_val::<[T]>(self) });
        }
        Val::Seq(self.iter().map(|x| x.walk(w)).collect())
    }
}
impl<T: HasTy, const N: usize> HasTy for [T; N] {
    fn ty() -> Ty {
        Ty::Array(Box::new(T::ty()), N)
    }
}
impl<T: Glue, const N: usize> Glue for [T; N] {
    fn from_val(v: &Val) -> Self {
        let s = v.seq();
        assert_eq!(s.len(), N);
        std::array::from_fn(|i| T::from_val(&s[i]))
    }
    fn walk(&self, w: &mut Walker) -> Val {
        Val::Seq(self.iter().map(|x| x.walk(w)).collect())
    }
}

/// Borrowed slice of zero-copy elements.
impl<T: Glue> EpsWalk for &[T] {
    fn eps_val(&self, w: &mut Walker) -> Val {
        w.parts.push(Part {
            kind: PART_SLICE,
            ptr: self.as_ptr() as usize,
            count: self.len(),
            esize: std::mem::size_of::<T>(),
            ealign: std::mem::align_of::<T>(),
        });
        let mut sink = Walker::default();
        Val::Seq(self.iter().map(|x| x.walk(&mut sink)).collect())
    }
}
/// Reference to a zero-copy value (struct, enum, tuple, array).
impl<T: Glue> EpsWalk for &T {
    fn eps_val(&self, w: &mut Walker) -> Val {
        w.parts.push(Part {
            kind: PART_REF,
            ptr: *self as *const T as usize,
            count: 1,
            esize: std::mem::size_of::<T>(),
            ealign: std::mem::align_of::<T>(),
        });
        let mut sink = Walker::default();
        (*self).walk(&mut sink)
    }
}
impl<E: EpsWalk> EpsWalk for Vec<E> {
    fn eps_val(&self, w: &mut Walker) -> Val {
        if self.capacity() * std::mem::size_of::<E>() > 0 {
            w.owned.push(OwnedBlk { ptr: self.as_ptr() as usize, bytes: self.capacity() * std::mem::size_of::<E>() });
        }
        Val::Seq(self.iter().map(|x| x.eps_val(w)).collect())
    }
}
impl<E: EpsWalk> EpsWalk for Box<[E]> {
    fn eps_val(&self, w: &mut Walker) -> Val {
        if std::mem::size_of_val::<[E]>(self) > 0 {
            w.owned.push(OwnedBlk { ptr: self.as_ptr() as usize, bytes: std::mem::size_of_val::<[E]>(self) });
        }
        Val::Seq(self.iter().map(|x| x.eps_val(w)).collect())
    }
}
impl<E: EpsWalk, const N: usize> EpsWalk for [E; N] {
    fn eps_val(&self, w: &mut Walker) -> Val {
        Val::Seq(self.iter().map(|x| x.eps_val(w)).collect())
    }
}

// --------------------------------------------------------------------------
// homogeneous tuples

macro_rules! tuple_glue {
    ($n:expr; $($i:tt)*) => {
        impl<T: HasTy> HasTy for ($(tuple_glue!(@t $i T),)*) {
            fn ty() -> Ty { Ty::Tuple(Box::new(T::ty()), $n) }
        }
        impl<T: Glue> Glue for ($(tuple_glue!(@t $i T),)*) {
            fn from_val(v: &Val) -> Self {
                let s = v.seq();
                assert_eq!(s.len(), $n);
                ($(T::from_val(&s[$i]),)*)
            }
            fn walk(&self, w: &mut Walker) -> Val {
                Val::Seq(vec![$(self.$i.walk(w),)*])
            }
        }
    };
    (@t $i:tt $T:ident) => { $T };
}
tuple_glue!(1; 0);
tuple_glue!(2; 0 1);
tuple_glue!(3; 0 1 2);
tuple_glue!(4; 0 1 2 3);
tuple_glue!(5; 0 1 2 3 4);
tuple_glue!(6; 0 1 2 3 4 5);
tuple_glue!(7; 0 1 2 3 4 5 6);
tuple_glue!(8; 0 1 2 3 4 5 6 7);
tuple_glue!(9; 0 1 2 3 4 5 6 7 8);
tuple_glue!(10; 0 1 2 3 4 5 6 7 8 9);
tuple_glue!(11; 0 1 2 3 4 5 6 7 8 9 10);
tuple_glue!(12; 0 1 2 3 4 5 6 7 8 9 10 11);

// --------------------------------------------------------------------------
// Option, ranges, Bound, ControlFlow

impl<T: HasTy> HasTy for Option<T> {
    fn ty() -> Ty {
        Ty::Opt(Box::new(T::ty()))
    }
}
impl<T: Glue> Glue for Option<T> {
    fn from_val(v: &Val) -> Self {
        v.opt().map(T::from_val)
    }
    fn walk(&self, w: &mut Walker) -> Val {
        Val::Opt(self.as_ref().map(|x| Box::new(x.walk(w))))
    }
}
impl<E: EpsWalk> EpsWalk for Option<E> {
    fn eps_val(&self, w: &mut Walker) -> Val {
        Val::Opt(self.as_ref().map(|x| Box::new(x.eps_val(w))))
    }
}

impl<T: HasTy> HasTy for Range<T> {
    fn ty() -> Ty {
        Ty::Range(RangeKind::Range, Box::new(T::ty()))
    }
}
impl<T: Glue> Glue for Range<T> {
    fn from_val(v: &Val) -> Self {
        let f = v.fields();
        T::from_val(&f[0])..T::from_val(&f[1])
    }
    fn walk(&self, w: &mut Walker) -> Val {
        Val::Struct(vec![self.start.walk(w), self.end.walk(w)])
    }
}
impl<E: EpsWalk> EpsWalk for Range<E> {
    fn eps_val(&self, w: &mut Walker) -> Val {
        Val::Struct(vec![self.start.eps_val(w), self.end.eps_val(w)])
    }
}
impl<T: HasTy> HasTy for RangeFrom<T> {
    fn ty() -> Ty {
        Ty::Range(RangeKind::From, Box::new(T::ty()))
    }
}
impl<T: Glue> Glue for RangeFrom<T> {
    fn from_val(v: &Val) -> Self {
        T::from_val(&v.fields()[0])..
    }
    fn walk(&self, w: &mut Walker) -> Val {
        Val::Struct(vec![self.start.walk(w)])
    }
}
impl<E: EpsWalk> EpsWalk for RangeFrom<E> {
    fn eps_val(&self, w: &mut Walker) -> Val {
        Val::Struct(vec![self.start.eps_val(w)])
    }
}
impl<T: HasTy> HasTy for RangeInclusive<T> {
    fn ty() -> Ty {
        Ty::Range(RangeKind::Inclusive, Box::new(T::ty()))
    }
}
impl<T: Glue> Glue for RangeInclusive<T> {
    fn from_val(v: &Val) -> Self {
        let f = v.fields();
        T::from_val(&f[0])..=T::from_val(&f[1])
    }
    fn walk(&self, w: &mut Walker) -> Val {
        Val::Struct(vec![self.start().walk(w), self.end().walk(w)])
    }
}
impl<E: EpsWalk> EpsWalk for RangeInclusive<E> {
    fn eps_val(&self, w: &mut Walker) -> Val {
        Val::Struct(vec![self.start().eps_val(w), self.end().eps_val(w)])
    }
}
impl<T: HasTy> HasTy for RangeTo<T> {
    fn ty() -> Ty {
        Ty::Range(RangeKind::To, Box::new(T::ty()))
    }
}
impl<T: Glue> Glue for RangeTo<T> {
    fn from_val(v: &Val) -> Self {
        ..T::from_val(&v.fields()[0])
    }
    fn walk(&self, w: &mut Walker) -> Val {
        Val::Struct(vec![self.end.walk(w)])
    }
}
impl<E: EpsWalk> EpsWalk for RangeTo<E> {
    fn eps_val(&self, w: &mut Walker) -> Val {
        Val::Struct(vec![self.end.eps_val(w)])
    }
}
impl<T: HasTy> HasTy for RangeToInclusive<T> {
    fn ty() -> Ty {
        Ty::Range(RangeKind::ToInclusive, Box::new(T::ty()))
    }
}
impl<T: Glue> Glue for RangeToInclusive<T> {
    fn from_val(v: &Val) -> Self {
        ..=T::from_val(&v.fields()[0])
    }
    fn walk(&self, w: &mut Walker) -> Val {
        Val::Struct(vec![self.end.walk(w)])
    }
}
impl<E: EpsWalk> EpsWalk for RangeToInclusive<E> {
    fn eps_val(&self, w: &mut Walker) -> Val {
        Val::Struct(vec![self.end.eps_val(w)])
    }
}

impl<T: HasTy> HasTy for Bound<T> {
    fn ty() -> Ty {
        Ty::Bound(Box::new(T::ty()))
    }
}
impl<T: Glue> Glue for Bound<T> {
    fn from_val(v: &Val) -> Self {
        let (i, f) = v.variant();
        match i {
            0 => Bound::Unbounded,
            1 => Bound::Included(T::from_val(&f[0])),
            _ => Bound::Excluded(T::from_val(&f[0])),
        }
    }
    fn walk(&self, w: &mut Walker) -> Val {
        match self {
            Bound::Unbounded => Val::Variant(0, vec![]),
            Bound::Included(x) => Val::Variant(1, vec![x.walk(w)]),
            Bound::Excluded(x) => Val::Variant(2, vec![x.walk(w)]),
        }
    }
}
impl<E: EpsWalk> EpsWalk for Bound<E> {
    fn eps_val(&self, w: &mut Walker) -> Val {
        match self {
            Bound::Unbounded => Val::Variant(0, vec![]),
            Bound::Included(x) => Val::Variant(1, vec![x.eps_val(w)]),
            Bound::Excluded(x) => Val::Variant(2, vec![x.eps_val(w)]),
        }
    }
}

impl<B: HasTy, C: HasTy> HasTy for ControlFlow<B, C> {
    fn ty() -> Ty {
        Ty::Flow(Box::new(B::ty()), Box::new(C::ty()))
    }
}
impl<B: Glue, C: Glue> Glue for ControlFlow<B, C> {
    fn from_val(v: &Val) -> Self {
        let (i, f) = v.variant();
        if i == 0 {
            ControlFlow::Break(B::from_val(&f[0]))
        } else {
            ControlFlow::Continue(C::from_val(&f[0]))
        }
    }
    fn walk(&self, w: &mut Walker) -> Val {
        match self {
            ControlFlow::Break(x) => Val::Variant(0, vec![x.walk(w)]),
            ControlFlow::Continue(x) => Val::Variant(1, vec![x.walk(w)]),
        }
    }
}
impl<B: EpsWalk, C: EpsWalk> EpsWalk for ControlFlow<B, C> {
    fn eps_val(&self, w: &mut Walker) -> Val {
        match self {
            ControlFlow::Break(x) => Val::Variant(0, vec![x.eps_val(w)]),
            ControlFlow::Continue(x) => Val::Variant(1, vec![x.eps_val(w)]),
        }
    }
}
