//! Event-recording `WriteWithNames`: wraps the library's own
//! `WriterWithPos` (whose *default* `align`/`write_bytes` do the work) and
//! records what the real serialisation code asks for.

use epserde::prelude::*;
use epserde::ser::{WriteNoStd, WriteWithNames, WriteWithPos, WriterWithPos};

#[derive(Clone, Debug)]
pub enum Ev {
    Align { before: usize, after: usize, unit_raw: usize, align_of: usize, ty: &'static str },
    WriteBytes { off: usize, len: usize, unit_raw: usize, align_of: usize, size_of: usize, ty: &'static str },
    Enter { name: String, pos: usize, ty: &'static str },
    Leave { pos: usize },
}

pub struct RecWriter<'a, 'b, F: WriteNoStd> {
    pub inner: WriterWithPos<'a, F>,
    pub evs: &'b mut Vec<Ev>,
}

impl<'a, 'b, F: WriteNoStd> RecWriter<'a, 'b, F> {
    pub fn new(backend: &'a mut F, evs: &'b mut Vec<Ev>) -> Self {
        RecWriter { inner: WriterWithPos::new(backend), evs }
    }
}

impl<F: WriteNoStd> WriteNoStd for RecWriter<'_, '_, F> {
    fn write_all(&mut self, buf: &[u8]) -> epserde::ser::Result<()> {
        self.inner.write_all(buf)
    }
    fn flush(&mut self) -> epserde::ser::Result<()> {
        self.inner.flush()
    }
}

impl<F: WriteNoStd> WriteWithPos for RecWriter<'_, '_, F> {
    fn pos(&self) -> usize {
        self.inner.pos()
    }
}

impl<F: WriteNoStd> WriteWithNames for RecWriter<'_, '_, F> {
    fn align<V: MaxSizeOf>(&mut self) -> epserde::ser::Result<()> {
        let before = self.inner.pos();
        // the library's default implementation, on the library's own writer
        let r = self.inner.align::<V>();
        let after = self.inner.pos();
        self.evs.push(Ev::Align {
            before,
            after,
            unit_raw: V::max_size_of(),
            align_of: core::mem::align_of::<V>(),
            ty: core::any::type_name::<V>(),
        });
        r
    }

    fn write<V: SerializeInner>(&mut self, field_name: &str, value: &V) -> epserde::ser::Result<()> {
        self.evs.push(Ev::Enter { name: field_name.to_string(), pos: self.inner.pos(), ty: core::any::type_name::<V>() });
        let r = value._serialize_inner(self);
        self.evs.push(Ev::Leave { pos: self.inner.pos() });
        r
    }

    fn write_bytes<V: SerializeInner + ZeroCopy>(&mut self, value: &[u8]) -> epserde::ser::Result<()> {
        self.evs.push(Ev::WriteBytes {
            off: self.inner.pos(),
            len: value.len(),
            unit_raw: V::max_size_of(),
            align_of: core::mem::align_of::<V>(),
            size_of: core::mem::size_of::<V>(),
            ty: core::any::type_name::<V>(),
        });
        self.inner.write_bytes::<V>(value)
    }
}
