//! C19 – AlignedCursor behaves like std::io::Cursor<Vec<u8>>.
use crate::common::*;
use epserde::utils::AlignedCursor;
use maligned::Alignment;
use model::json::J;
use model::rng::Rng;
use std::io::{Cursor, Read, Seek, SeekFrom, Write};

#[derive(Clone, Debug)]
enum Op {
    Write(usize),
    WriteAll(usize),
    Read(usize),
    ReadExact(usize),
    Seek(SeekFrom),
    /// Seek to `len + delta` from the start.
    SeekPastEnd(u64),
    SetPos(usize),
    StreamPos,
}

const MAX_WRITE_POS: u64 = 1 << 20;

thread_local! {
    static KNOWN_EMPTY_WRITE_ALL: std::cell::Cell<u64> = const { std::cell::Cell::new(0) };
}

fn fill(n: usize, salt: u64) -> Vec<u8> {
    (0..n).map(|i| (i as u64).wrapping_mul(31).wrapping_add(salt).wrapping_add(1) as u8 | 1).collect()
}

fn res_str<T: std::fmt::Debug>(r: &std::io::Result<T>) -> String {
    match r {
        Ok(v) => format!("Ok({:?})", v),
        Err(e) => format!("Err({:?})", e.kind()),
    }
}

/// Run one history on a fresh pair; returns a description of the first
/// divergence.
fn run_history<T: Alignment>(ops: &[Op], stats: &mut (u64, u64)) -> Option<String> {
    run_history_cap::<T>(ops, stats, None)
}

/// `cap`: start from `AlignedCursor::with_capacity(cap)` instead of `new()`
/// (a capacity is not observable: the model is the same empty cursor).
fn run_history_cap<T: Alignment>(ops: &[Op], stats: &mut (u64, u64), cap: Option<usize>) -> Option<String> {
    let mut a = match cap {
        Some(c) => AlignedCursor::<T>::with_capacity(c),
        None => AlignedCursor::<T>::new(),
    };
    if a.len() != 0 || a.position() != 0 || !a.is_empty() || !a.as_bytes().is_empty() {
        return Some(format!("fresh cursor (capacity {:?}) is not empty", cap));
    }
    let mut m: Cursor<Vec<u8>> = Cursor::new(Vec::new());
    for (step, op) in ops.iter().enumerate() {
        stats.0 += 1;
        let r = rt::outcome::guarded(|| -> Option<String> {
            match op {
                Op::Write(n) | Op::WriteAll(n) => {
                    if m.position() > MAX_WRITE_POS {
                        return None; // the std model would allocate the gap
                    }
                    let buf = fill(*n, step as u64);
                    if matches!(op, Op::WriteAll(0)) && m.position() > m.get_ref().len() as u64 {
                        // `write_all(&[])` never reaches `AlignedCursor::write`
                        // (the provided method loops while the buffer is
                        // non-empty) whereas std's specialised Cursor pads to
                        // the position: recorded as a finding of its own, then
                        // resynchronised so that exploration continues.
                        let _ = a.write_all(&buf);
                        let _ = m.write_all(&buf);
                        if a.len() != m.get_ref().len() {
                            KNOWN_EMPTY_WRITE_ALL.with(|c| c.set(c.get() + 1));
                            let _ = a.write(&buf);
                        }
                        return None;
                    }
                    let (ra, rm) = if matches!(op, Op::Write(_)) {
                        (res_str(&a.write(&buf)), res_str(&m.write(&buf)))
                    } else {
                        (res_str(&a.write_all(&buf)), res_str(&m.write_all(&buf)))
                    };
                    if ra != rm {
                        return Some(format!("{:?}: {} vs std {}", op, ra, rm));
                    }
                }
                Op::Read(n) => {
                    let mut ba = vec![0xEEu8; *n];
                    let mut bm = vec![0xEEu8; *n];
                    let (ra, rm) = (res_str(&a.read(&mut ba)), res_str(&m.read(&mut bm)));
                    if ra != rm || ba != bm {
                        return Some(format!("{:?}: {} {:?} vs std {} {:?}", op, ra, &ba[..ba.len().min(8)], rm, &bm[..bm.len().min(8)]));
                    }
                }
                Op::ReadExact(n) => {
                    let mut ba = vec![0xEEu8; *n];
                    let mut bm = vec![0xEEu8; *n];
                    let ra = a.read_exact(&mut ba);
                    let rm = m.read_exact(&mut bm);
                    if res_str(&ra) != res_str(&rm) || (ra.is_ok() && ba != bm) {
                        return Some(format!("{:?}: {} vs std {}", op, res_str(&ra), res_str(&rm)));
                    }
                    if ra.is_err() {
                        // Read::read_exact leaves the amount read unspecified
                        // on error: resynchronise instead of judging.
                        let p = m.position();
                        a.set_position(p as usize);
                    }
                }
                Op::Seek(s) => {
                    let (ra, rm) = (res_str(&a.seek(*s)), res_str(&m.seek(*s)));
                    if ra != rm {
                        return Some(format!("{:?}: {} vs std {}", op, ra, rm));
                    }
                }
                Op::SeekPastEnd(d) => {
                    let t = m.get_ref().len() as u64 + d;
                    let (ra, rm) = (res_str(&a.seek(SeekFrom::Start(t))), res_str(&m.seek(SeekFrom::Start(t))));
                    if ra != rm {
                        return Some(format!("{:?}: {} vs std {}", op, ra, rm));
                    }
                }
                Op::SetPos(p) => {
                    a.set_position(*p);
                    m.set_position(*p as u64);
                }
                Op::StreamPos => {
                    let (ra, rm) = (res_str(&a.stream_position()), res_str(&m.stream_position()));
                    if ra != rm {
                        return Some(format!("{:?}: {} vs std {}", op, ra, rm));
                    }
                }
            }
            None
        });
        match r {
            Err(p) => return Some(format!("step {} {:?}: PANIC({})", step, op, p)),
            Ok(Some(d)) => return Some(format!("step {} {}", step, d)),
            Ok(None) => {}
        }
        // state after every step
        stats.1 += 1;
        if a.position() as u64 != m.position() {
            return Some(format!("step {} {:?}: position {} vs std {}", step, op, a.position(), m.position()));
        }
        if a.len() != m.get_ref().len() {
            return Some(format!("step {} {:?}: len {} vs std {}", step, op, a.len(), m.get_ref().len()));
        }
        let bytes = a.as_bytes();
        if bytes.as_ptr() as usize % std::mem::align_of::<T>() != 0 {
            return Some(format!("step {} {:?}: storage at {:p} not aligned to {}", step, op, bytes.as_ptr(), std::mem::align_of::<T>()));
        }
        if bytes != &m.get_ref()[..] {
            let at = (0..bytes.len()).find(|&i| bytes[i] != m.get_ref()[i]);
            return Some(format!("step {} {:?}: contents differ at {:?}", step, op, at));
        }
        if a.is_empty() != m.get_ref().is_empty() {
            return Some(format!("step {} {:?}: is_empty differs", step, op));
        }
    }
    None
}

fn alphabet() -> Vec<Op> {
    vec![
        Op::Write(0), Op::Write(1), Op::Write(3), Op::Write(17), Op::WriteAll(100),
        Op::Read(0), Op::Read(1), Op::Read(8), Op::ReadExact(4),
        Op::Seek(SeekFrom::Start(0)), Op::SeekPastEnd(5), Op::Seek(SeekFrom::Current(-1)), Op::Seek(SeekFrom::Current(7)),
        Op::Seek(SeekFrom::End(-3)), Op::Seek(SeekFrom::End(2)), Op::SetPos(2),
    ]
}

fn random_op(r: &mut Rng) -> Op {
    let lens = [0usize, 1, 3, 8, 15, 16, 17, 64, 100, 257];
    let offs = [0i64, 1, -1, 7, -7, 40, -40, 4096, -4096, i64::MIN, i64::MAX, i64::MIN + 1, 1 << 40];
    match r.below(14) {
        0 | 1 => Op::Write(*r.pick(&lens)),
        2 => Op::WriteAll(*r.pick(&lens)),
        3 | 4 => Op::Read(*r.pick(&lens)),
        5 => Op::ReadExact(*r.pick(&lens)),
        6 => Op::Seek(SeekFrom::Start(*r.pick(&[0u64, 1, 5, 16, 100, 1000, u64::MAX, u64::MAX - 1, 1 << 32]))),
        7 => Op::Seek(SeekFrom::Current(*r.pick(&offs))),
        8 => Op::Seek(SeekFrom::End(*r.pick(&offs))),
        9 => Op::SeekPastEnd(r.below(60) as u64),
        10 => Op::SetPos(r.below(300)),
        11 => Op::SetPos(*r.pick(&[0usize, usize::MAX, usize::MAX - 3, 1 << 40, 1 << 20, (1 << 20) + 1])),
        12 => Op::Seek(SeekFrom::Start(r.below(200) as u64)),
        _ => Op::StreamPos,
    }
}

fn run_align<T: Alignment>(cfg: &Cfg, log: &mut Log, label: &str, part: usize) {
    let alpha = alphabet();
    let k = alpha.len();
    // length-5 enumeration (1 118 480 histories per alignment) only in the optimised flavour
    let depth = if cfg.thorough && !cfg!(debug_assertions) { 5 } else { 4 };
    let mut stats = (0u64, 0u64);
    // exhaustive enumeration of all histories of length ≤ depth; shards
    // split the space by the first letter
    let report = |log: &mut Log, ops: &[Op], d: String| {
        log.violation("C19", &format!("C19/{}", d.split(':').next().unwrap_or("").split(' ').skip(2).next().unwrap_or("diverge").split('(').next().unwrap_or("")),
            label, None, format!("history {:?} on AlignedCursor<{}>: {}", ops, label, d), vec![]);
    };
    for len in 1..=depth {
        let total = k.pow(len as u32);
        for idx in 0..total {
            if (idx % k) % cfg.nshards != cfg.shard {
                continue;
            }
            let mut ops = Vec::with_capacity(len);
            let mut x = idx;
            for _ in 0..len {
                ops.push(alpha[x % k].clone());
                x /= k;
            }
            log.count("histories_exhaustive", 1);
            log.count("evaluations", 1);
            if len >= 2 {
                log.distinct((part as u64) << 60 | (len as u64) << 52 | idx as u64);
            }
            if let Some(d) = run_history::<T>(&ops, &mut stats) {
                report(log, &ops, d);
            }
        }
    }
    // long random histories
    let nrand = if cfg.thorough { 40_000 } else { 2_000 } / cfg.nshards.max(1) * cfg.scale;
    let mut r = Rng::new(cfg.seed ^ (part as u64) << 32 ^ cfg.shard as u64);
    for i in 0..nrand {
        let n = if cfg.thorough { 60 } else { 200 };
        let ops: Vec<Op> = (0..n).map(|_| random_op(&mut r)).collect();
        log.count("histories_random", 1);
        log.count("evaluations", 1);
        log.distinct(0xF << 60 | (part as u64) << 56 | (cfg.shard as u64) << 40 | i as u64);
        let cap = if i % 2 == 1 { Some(r.below(300)) } else { None };
        if cap.is_some() {
            log.count("histories_with_capacity", 1);
        }
        if let Some(d) = run_history_cap::<T>(&ops, &mut stats, cap) {
            let cut = d.split(' ').nth(1).and_then(|s| s.parse::<usize>().ok()).unwrap_or(ops.len() - 1);
            report(log, &ops[..=cut.min(ops.len() - 1)], d);
        }
    }
    let n = KNOWN_EMPTY_WRITE_ALL.with(|c| c.replace(0));
    if n > 0 {
        log.count("empty_write_all_past_end_divergences", n);
        log.violation("C19", "C19/write_all-empty-past-end", label, None,
            format!("history [SetPos(p > len), WriteAll(0)] on AlignedCursor<{}>: std::io::Cursor zero-fills up to the position, AlignedCursor::write_all(&[]) leaves the length unchanged ({} occurrences)", label, n), vec![]);
    }
    log.count("operations", stats.0);
    log.count("state_comparisons", stats.1);
    log.set("alignments", label);
}

pub fn run(cfg: &Cfg, log: &mut Log) {
    log.begin("cursor");
    run_align::<maligned::A2>(cfg, log, "A2", 0);
    run_align::<maligned::A16>(cfg, log, "A16", 1);
    run_align::<maligned::A64>(cfg, log, "A64", 2);
    run_align::<maligned::A512>(cfg, log, "A512", 3);
    log.sample(J::obj(vec![("history", J::s(format!("{:?}", &alphabet()[..4]))), ("alignment", J::s("A16"))]));
    log.sample(J::obj(vec![("history", J::s("[SetPos(2), Write(3), Seek(End(-3)), Read(8)]")), ("alignment", J::s("A64"))]));
}
