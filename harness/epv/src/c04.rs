//! C04 – bytes written as T are never accepted as a structurally different U.
use crate::common::*;
use model::hash::sig;
use model::json::J;
use model::*;
use rt::*;
use std::collections::HashMap;

struct Target {
    name: &'static str,
    ty: Ty,
    sig: String,
    hashes: (u64, u64),
    a_root: Option<&'static dyn Root>,
    m_root: Option<&'static dyn HashRoot>,
}

fn cname(t: &Ty) -> String {
    match t {
        Ty::Prim(p) => p.hash_name().into(),
        Ty::Unit => "()".into(),
        Ty::Phantom(_) => "PhantomData".into(),
        Ty::RangeFull => "RangeFull".into(),
        Ty::Str => "String".into(),
        Ty::BoxStr => "BoxStr".into(),
        Ty::Vec(_) => "Vec".into(),
        Ty::BoxSlice(_) => "BoxSlice".into(),
        Ty::Array(_, n) => if *n == 0 { "Array0".into() } else { "Array".into() },
        Ty::Tuple(..) => "Tuple".into(),
        Ty::Opt(_) => "Option".into(),
        Ty::Range(k, _) => k.ident().into(),
        Ty::Bound(_) => "Bound".into(),
        Ty::Flow(..) => "ControlFlow".into(),
        Ty::User(u) => format!("{}{}", if u.zero { "zero:" } else { "deep:" }, u.name),
    }
}

/// Constructors enclosing the first structural difference between a and b.
fn diff_path(a: &Ty, b: &Ty, path: &mut Vec<String>) -> bool {
    if sig(a) == sig(b) {
        return false;
    }
    let kids = |t: &Ty| -> Vec<Ty> {
        match t {
            Ty::Phantom(x) | Ty::Vec(x) | Ty::BoxSlice(x) | Ty::Array(x, _) | Ty::Tuple(x, _) | Ty::Opt(x) | Ty::Range(_, x) | Ty::Bound(x) => vec![(**x).clone()],
            Ty::Flow(x, y) => vec![(**x).clone(), (**y).clone()],
            Ty::User(u) => u.variants.iter().flat_map(|v| v.fields.iter().map(|f| f.ty.clone())).collect(),
            _ => vec![],
        }
    };
    let same_node = match (a, b) {
        (Ty::User(x), Ty::User(y)) => {
            x.name == y.name && x.zero == y.zero && x.is_enum == y.is_enum && x.consts == y.consts && x.variants.len() == y.variants.len()
                && x.variants.iter().zip(&y.variants).all(|(p, q)| p.name == q.name && p.fields.len() == q.fields.len()
                    && p.fields.iter().zip(&q.fields).all(|(f, g)| f.name == g.name))
                && (!x.zero || (x.reprs == y.reprs && x.layout == y.layout))
        }
        (Ty::Array(_, n), Ty::Array(_, m)) => n == m,
        (Ty::Tuple(_, n), Ty::Tuple(_, m)) => n == m,
        (Ty::Range(k, _), Ty::Range(l, _)) => k == l,
        _ => std::mem::discriminant(a) == std::mem::discriminant(b) && !matches!(a, Ty::Prim(_)),
    };
    if !same_node {
        return true; // the difference is at this node
    }
    path.push(cname(a));
    for (x, y) in kids(a).iter().zip(kids(b).iter()) {
        if diff_path(x, y, path) {
            return true;
        }
    }
    path.pop();
    true
}

fn typesig(t: &Ty) -> String {
    // signature with layout ignored: wrap in PhantomData (see model::hash::sig)
    sig(&Ty::Phantom(Box::new(t.clone())))
}

fn accept_sig(t: &Ty, u: &Ty) -> String {
    let mut path = vec![];
    diff_path(t, u, &mut path);
    let reason = if typesig(t) == typesig(u) { "layout-only" } else { "structure" };
    let below = if path.iter().any(|p| p == "Bound") {
        "below:Bound".to_string()
    } else if path.iter().any(|p| p == "Array0") {
        "below:Array0".to_string()
    } else if path.iter().any(|p| p.starts_with("Range")) {
        "below:Range".to_string()
    } else {
        format!("path:{}", path.join(">"))
    };
    format!("C04/accepted/{}/{}", reason, below)
}

pub fn run(cfg: &Cfg, log: &mut Log) {
    // all targets
    let mut targets: Vec<Target> = vec![];
    for r in all_roots().into_iter().chain(um::MT_ROOTS.iter().copied()) {
        let ty = r.ty();
        targets.push(Target { name: r.name(), sig: sig(&ty), hashes: r.hashes(), ty, a_root: Some(r), m_root: None });
    }
    for h in um::HASH_ROOTS.iter().copied() {
        let ty = h.ty();
        targets.push(Target { name: h.name(), sig: sig(&ty), hashes: h.hashes(), ty, a_root: None, m_root: Some(h) });
    }
    let by_name: HashMap<&str, usize> = targets.iter().enumerate().map(|(i, t)| (t.name, i)).collect();
    log.count("target_types", targets.len() as u64);
    // hash recipe also holds for the mutants (ingredient by ingredient)
    if cfg.shard == 0 {
        for t in &targets {
            if t.m_root.is_some() {
                log.count("mutant_hashes_vs_recipe", 1);
                let m = (model::hash::type_hash(&t.ty), model::hash::align_hash(&t.ty));
                if m != t.hashes {
                    log.violation("C04", "C04/recipe", t.name, None,
                        format!("hashes {:x?} of the mutant differ from the published recipe {:x?}", t.hashes, m), vec![]);
                }
            }
        }
        // the generator's expectation and the model's signatures must agree
        for (tn, un, kind, same) in um::PAIRS.iter() {
            log.set("mutant_kinds", *kind);
            if let (Some(&i), Some(&j)) = (by_name.get(tn), by_name.get(un)) {
                if (targets[i].sig == targets[j].sig) != *same {
                    log.inconclusive(format!("model signature and generator disagree on ({}, {}, {})", tn, un, kind));
                }
            } else {
                log.inconclusive(format!("designated pair ({}, {}) not in the tables", tn, un));
            }
        }
    }
    let kind_of: HashMap<(&str, &str), &str> = um::PAIRS.iter().map(|(t, u, k, _)| ((*t, *u), *k)).collect();
    // group digests: structurally different types must not share both words
    let mut mine = my_roots(cfg);
    for (i, r) in um::MT_ROOTS.iter().copied().enumerate() {
        if i % cfg.nshards == cfg.shard && cfg.filter.as_ref().map_or(true, |f| r.name().contains(f.as_str())) {
            mine.push(RootCtx { root: r, name: r.name(), ty: r.ty() });
        }
    }
    for rc in mine {
        log.count("roots", 1);
        let ti = by_name[rc.name];
        let v = &values(&rc, cfg.seed, 1)[0];
        log.begin(rc.name);
        let Ok(bytes) = ser_plain(&rc, v) else {
            log.violation("C04", "C04/serialize", rc.name, Some(v), "serialize failed".into(), vec![]);
            continue;
        };
        let buf = rt::membuf::PlacedBuf::aligned(&bytes);
        let t = &targets[ti];
        for (ui, u) in targets.iter().enumerate() {
            if ui == ti {
                continue;
            }
            log.count("pairs", 1);
            log.count("evaluations", 1);
            let same = t.sig == u.sig;
            let designated = kind_of.get(&(t.name, u.name)).copied();
            if let Some(k) = designated {
                log.count("designated_pairs", 1);
                log.set("mutant_kinds_exercised", k);
            }
            // non-trivial pairs: near misses (a designated mutant pair, structural twins, or two
            // types with the same outermost constructor / user type name)
            if designated.is_some() || same || cname(&t.ty) == cname(&u.ty) {
                log.distinct(model::rng::fnv(t.name) ^ model::rng::fnv(u.name).rotate_left(17));
                log.count("near_miss_pairs", 1);
            }
            if !same && t.hashes == u.hashes {
                // the header check will accept the file: this pair is the witness
                log.violation("C04", &accept_sig(&t.ty, &u.ty), t.name, Some(v),
                    format!("bytes of {} pass the header check of {} (both hash words equal: {:x?}) although the serialised structures differ{}",
                        t.name, u.name, t.hashes, designated.map(|k| format!(" (mutation: {})", k)).unwrap_or_default()),
                    vec![("target", J::s(u.name))]);
                continue;
            }
            if same && t.hashes != u.hashes {
                log.violation("C04", "C04/rejected-same-structure", t.name, Some(v),
                    format!("{} and {} have the same serialised structure but different hashes {:x?} / {:x?}", t.name, u.name, t.hashes, u.hashes),
                    vec![("target", J::s(u.name))]);
                continue;
            }
            // observe the real deserialisers on the real bytes
            let mut rd = IoReader::new(&bytes);
            let (full, eps) = match (u.a_root, u.m_root) {
                (Some(r), _) => (r.full(&mut rd).map(|_| ()), r.eps_outcome(buf.bytes())),
                (_, Some(h)) => (h.full_outcome(&mut rd), h.eps_outcome(buf.bytes())),
                _ => unreachable!(),
            };
            for (mode, got) in [("full", full), ("eps", eps)] {
                let ok = if same {
                    got.is_ok() || (mode == "eps" && model::layout::has_odd_unit(&u.ty))
                } else {
                    matches!(got, Err(Fail::Err(DeErr::WrongTypeHash { .. })) | Err(Fail::Err(DeErr::WrongAlignHash { .. })))
                };
                if ok {
                    log.count(if same { "accepted_same_structure" } else { "rejected_by_hash" }, 1);
                    if let Err(Fail::Err(e)) = &got {
                        log.count(e.kind(), 1);
                    }
                } else {
                    log.violation("C04", &format!("C04/outcome/{}/{}", if same { "same" } else { "different" }, mode), t.name, Some(v),
                        format!("bytes of {} read as {} ({}): {:?}, expected {}", t.name, u.name, mode, got.map_err(|f| fail_str(&f)),
                            if same { "Ok" } else { "a type-hash or alignment-hash error" }), vec![("target", J::s(u.name))]);
                }
            }
        }
        log.sample(J::obj(vec![("T", J::s(rc.name)), ("U_count", J::u(targets.len() as u64 - 1)), ("value", J::s(show_val(v)))]));
    }
}
