//! C08 – file loaders agree with ε-copy of the file bytes and own a sound
//! region.  C09 (parts 1 and 2) – backing memory released exactly once, no
//! leak when loading fails.
use crate::common::*;
use model::json::J;
use model::*;
use rt::*;
use std::path::PathBuf;

fn loaders() -> Vec<(Loader, &'static str, Vec<u32>)> {
    let mut v = vec![(Loader::Mem, "load_mem", vec![0u32])];
    if cfg!(feature = "mmap") {
        v.push((Loader::LoadMmap, "load_mmap", (0..8).collect()));
        v.push((Loader::Mmap, "mmap", (0..8).collect()));
    }
    v
}

fn tmpdir(cfg: &Cfg, tag: &str) -> PathBuf {
    let d = PathBuf::from(&cfg.tmpdir).join(format!("{}-{}-{}", tag, cfg.shard, std::process::id()));
    let _ = std::fs::create_dir_all(&d);
    d
}

/// Values of a root chosen so that file lengths spread over residues mod 64.
fn sweep_values(rc: &RootCtx, seed: u64, n: usize) -> Vec<Val> {
    let mut out = values(rc, seed, n);
    out.extend(big_values(rc));
    if matches!(rc.ty, Ty::Str | Ty::BoxStr) {
        for l in 0..130 {
            out.push(Val::Str("x".repeat(l)));
        }
    }
    if let Ty::Vec(t) = &rc.ty {
        if **t == Ty::Prim(Prim::U8) {
            for l in 0..130u32 {
                out.push(Val::Seq((0..l).map(|i| Val::P((i as u128 * 7 + 1) & 0xff)).collect()));
            }
        }
    }
    out
}

unsafe fn region_bytes<'a>(addr: usize, len: usize) -> &'a [u8] {
    std::slice::from_raw_parts(addr as *const u8, len)
}

fn check_case(log: &mut Log, rc: &RootCtx, v: &Val, lname: &str, flags: u32, case: &dyn Case, file_len: usize, class: &str) {
    let mut w = Walker::default();
    let got = case.walk(&mut w);
    if got != *v {
        log.violation("C08", &format!("C08/value/{}/{}", lname, class), rc.name, Some(v),
            format!("{} (flags {:#b}) yields {}", lname, flags, show_val(&got)), vec![]);
    } else {
        log.count("loads_equal", 1);
    }
    match case.region() {
        None => log.inconclusive("backing-region hook unavailable (built without --cfg epserde_verif?)"),
        Some((addr, len, kind)) => {
            log.count("regions_checked", 1);
            let mut bad = vec![];
            if addr % 64 != 0 {
                bad.push(format!("region base {:#x} is not a multiple of 64", addr));
            }
            let want_kind = if lname == "load_mem" { 1 } else { 2 };
            if kind != want_kind {
                bad.push(format!("backend kind {} for {}", kind, lname));
            }
            if lname == "mmap" {
                if len != file_len {
                    bad.push(format!("mapping of {} bytes for a file of {}", len, file_len));
                }
            } else {
                if len < file_len || len % 16 != 0 || len >= file_len + 64 + 16 {
                    bad.push(format!("region of {} bytes for a file of {} (must be the rounded-up length)", len, file_len));
                } else {
                    let tail = unsafe { region_bytes(addr + file_len, len - file_len) };
                    log.count("tail_bytes_checked", tail.len() as u64);
                    if tail.iter().any(|b| *b != 0) {
                        bad.push(format!("bytes [{}..{}) after the end of the file are not zero", file_len, len));
                    }
                }
            }
            for p in &w.parts {
                let bytes = p.count * p.esize;
                log.count("borrowed_parts_checked", 1);
                if bytes == 0 && p.esize > 0 && (p.ptr < addr || p.ptr > addr + len) {
                    bad.push(format!("empty borrowed slice at {:#x} lies outside the backing region [{:#x},+{}]", p.ptr, addr, len));
                }
                if bytes > 0 && (p.ptr < addr || p.ptr + bytes > addr + len) {
                    bad.push(format!("borrowed part [{:#x},+{}) lies outside the backing region [{:#x},+{})", p.ptr, bytes, addr, len));
                }
                if p.ptr % p.ealign.max(1) != 0 {
                    bad.push(format!("borrowed part {:#x} misaligned for its type", p.ptr));
                }
            }
            if !bad.is_empty() {
                log.violation("C08", &format!("C08/region/{}/{}", lname, class), rc.name, Some(v),
                    format!("{} (flags {:#b}): {}", lname, flags, bad.join("; ")), vec![]);
            }
        }
    }
}

fn moves(log: &mut Log, rc: &RootCtx, v: &Val, lname: &str, case: Box<dyn Case>, class: &str) {
    use std::sync::mpsc;
    // into a Vec (moves the box), back out
    let mut bag: Vec<Box<dyn Case>> = Vec::new();
    bag.push(case);
    for _ in 0..4 {
        bag.reserve(bag.capacity() + 8); // force reallocation of the Vec
    }
    let case = bag.pop().unwrap();
    let mut w = Walker::default();
    let ok1 = case.walk(&mut w) == *v;
    // through a channel to another thread, read there, sent back
    let (tx, rx) = mpsc::channel::<Box<dyn Case>>();
    let (tx2, rx2) = mpsc::channel::<(Box<dyn Case>, Val)>();
    let h = std::thread::spawn(move || {
        let c = rx.recv().unwrap();
        let mut w = Walker::default();
        let val = c.walk(&mut w);
        tx2.send((c, val)).unwrap();
    });
    tx.send(case).unwrap();
    let (case, val2) = rx2.recv().unwrap();
    h.join().unwrap();
    // 8 concurrent readers through a shared reference
    let case_ref: &dyn Case = &*case;
    let results: Vec<bool> = std::thread::scope(|s| {
        let hs: Vec<_> = (0..8).map(|_| s.spawn(|| {
            let mut ok = true;
            for _ in 0..4 {
                let mut w = Walker::default();
                ok &= case_ref.walk(&mut w) == *v;
            }
            ok
        })).collect();
        hs.into_iter().map(|h| h.join().unwrap_or(false)).collect()
    });
    // dropped on a different thread
    let dropper = std::thread::spawn(move || drop(case));
    let dropped = dropper.join().is_ok();
    log.count("move_sequences", 1);
    log.count("cross_thread_reads", 9);
    if !(ok1 && val2 == *v && results.iter().all(|b| *b) && dropped) {
        log.violation("C08", &format!("C08/moves/{}/{}", lname, class), rc.name, Some(v),
            format!("{}: after Vec move ok={}, other thread reads {}, concurrent readers {:?}, dropped elsewhere {}", lname, ok1, show_val(&val2), results, dropped), vec![]);
    }
}

pub fn run_c08(cfg: &Cfg, log: &mut Log) {
    let dir = tmpdir(cfg, "c08");
    let nvals = if cfg.thorough { 6 } else { 2 } * cfg.scale.max(1);
    for rc in my_roots(cfg) {
        log.count("roots", 1);
        if model::layout::has_odd_unit(&rc.ty) {
            continue;
        }
        let class = ty_class(&rc.ty);
        for (vi, v) in sweep_values(&rc, cfg.seed, nvals).into_iter().enumerate() {
            log.begin(rc.name);
            let Ok(bytes) = ser_plain(&rc, &v) else {
                log.violation("C08", "C08/serialize", rc.name, Some(&v), "serialize failed".into(), vec![]);
                continue;
            };
            let enc = model::enc::encode(&rc.ty, &v, rc.root.type_name());
            let path = dir.join("v.bin");
            log.count("evaluations", 1);
            match rc.root.store(&v, &path) {
                Ok(()) => {
                    let on_disk = std::fs::read(&path).unwrap_or_default();
                    let same = on_disk.len() == bytes.len() && (0..bytes.len()).all(|i| !enc.care[i] || on_disk[i] == bytes[i]);
                    if !same {
                        log.violation("C08", &format!("C08/store/{}", class), rc.name, Some(&v),
                            format!("store wrote {} bytes, serialize produces {} (or contents differ)", on_disk.len(), bytes.len()), vec![]);
                    } else {
                        log.count("stores_exact", 1);
                    }
                }
                Err(f) => {
                    log.violation("C08", &format!("C08/store/{}", class), rc.name, Some(&v), format!("store failed: {}", fail_str(&f)), vec![]);
                    continue;
                }
            }
            let file_len = bytes.len();
            log.set("residues_mod_64", format!("{}", file_len % 64));
            // load_full
            log.count("evaluations", 1);
            match rc.root.load_full(&path) {
                Ok(back) if back == v => log.count("load_full_equal", 1),
                other => log.violation("C08", &format!("C08/value/load_full/{}", class), rc.name, Some(&v),
                    format!("load_full gives {:?}", other.map(|x| show_val(&x)).map_err(|f| fail_str(&f))), vec![]),
            }
            log.set("loader_cells", "load_full");
            for (ld, lname, flagsets) in loaders() {
                for &flags in &flagsets {
                    // all flag sets for the first values, a rotating one later
                    if vi >= 2 && flags != (vi as u32) % 8 && flagsets.len() > 1 {
                        continue;
                    }
                    log.count("evaluations", 1);
                    log.set("loader_cells", format!("{}:{:03b}", lname, flags));
                    log.distinct(model::rng::fnv(rc.name) ^ ((flags as u64) << 8 | ld as u64) << 48 ^ v.shape_hash());
                    if lname == "load_mem" && rc.root.align_of() <= 64 && model::layout::max_unit(&rc.ty) > 64 {
                        // the heap block is 64-aligned: a block with a larger unit may or may not
                        // land on a multiple of it; both outcomes are documented
                        match rc.root.load_case(ld, &path, flags) {
                            Ok(case) => check_case(log, &rc, &v, lname, flags, &*case, file_len, &class),
                            Err(Fail::Err(DeErr::Alignment)) => log.count("load_mem_refused_unit_above_64", 1),
                            Err(f) => log.violation("C08", &format!("C08/load/{}/{}", lname, class), rc.name, Some(&v), format!("load_mem failed: {}", fail_str(&f)), vec![]),
                        }
                        continue;
                    }
                    if lname == "load_mem" && rc.root.align_of() > 64 {
                        // documented: load_mem provides 64-byte alignment and refuses stricter types
                        match rc.root.load_case(ld, &path, flags) {
                            Err(Fail::Err(DeErr::Alignment)) => log.count("load_mem_refused_overaligned_type", 1),
                            other => log.violation("C08", &format!("C08/overaligned/{}", class), rc.name, Some(&v),
                                format!("load_mem of a type with align_of {} must return AlignmentError, got {:?}", rc.root.align_of(), other.map(|_| "a value").map_err(|f| fail_str(&f))), vec![]),
                        }
                        continue;
                    }
                    match rc.root.load_case(ld, &path, flags) {
                        Ok(case) => {
                            check_case(log, &rc, &v, lname, flags, &*case, file_len, &class);
                            if vi == 0 && (flags == 0 || flags == 7) {
                                moves(log, &rc, &v, lname, case, &class);
                            }
                        }
                        Err(f) => log.violation("C08", &format!("C08/load/{}/{}", lname, class), rc.name, Some(&v),
                            format!("{} (flags {:#b}) failed: {}", lname, flags, fail_str(&f)), vec![]),
                    }
                }
            }
            if vi < 2 {
                log.sample(J::obj(vec![("type", J::s(rc.name)), ("value", J::s(show_val(&v))), ("file_len", J::u(file_len as u64))]));
            }
        }
    }
    let _ = std::fs::remove_dir_all(&dir);
}

// ---------------------------------------------------------------------------
// C09

fn maps_summary() -> (usize, usize, Vec<String>) {
    let maps = rt::membuf::proc_maps();
    let mut n = 0;
    let mut total = 0;
    let mut ours = vec![];
    for (a, b, perms, path) in maps {
        if path == "[heap]" || path == "[stack]" {
            continue;
        }
        n += 1;
        total += b - a;
        if path.contains("/c09-") {
            ours.push(format!("{:x}-{:x} {} {}", a, b, perms, path));
        }
    }
    (n, total, ours)
}

pub fn run_c09(cfg: &Cfg, log: &mut Log) {
    let dir = tmpdir(cfg, "c09");
    let roots = my_roots(cfg);
    let all = all_roots();
    let nvals = if cfg.thorough { 3 } else { 1 };
    for (ri, rc) in roots.iter().enumerate() {
        log.count("roots", 1);
        if model::layout::has_odd_unit(&rc.ty) {
            continue;
        }
        let class = ty_class(&rc.ty);
        for v in values(rc, cfg.seed, nvals) {
            log.begin(rc.name);
            let Ok(bytes) = ser_plain(rc, &v) else { continue };
            let good = dir.join("good.bin");
            std::fs::write(&good, &bytes).unwrap();
            // (1) released exactly once.  One-time lazy initialisations (page
            // size caches, panic hook) are not leaks: a delta only counts if it
            // repeats on a second, identical load.
            let over = rc.root.align_of() > 64 || model::layout::max_unit(&rc.ty) > 64;
            for (ld, lname, _) in loaders() {
                if over && lname == "load_mem" {
                    continue; // refused by design (AlignmentError): judged as a failure cause below
                }
                log.count("evaluations", 1);
                let mut prev: Option<Vec<String>> = None;
                for attempt in 0..2 {
                    let m0 = maps_summary();
                    let c0 = rt::alloc::counters();
                    let case = rc.root.load_case(ld, &good, 0);
                    let mut bad = vec![];
                    match case {
                        Ok(case) => {
                            let c1 = rt::alloc::counters();
                            let m1 = (maps_summary().0, 0usize);
                            let region = case.region();
                            let mut w = Walker::default();
                            let mut ok = case.walk(&mut w) == v;
                            drop(w);
                            // the copying loaders own a private copy: rewriting the file
                            // (same length, every byte inverted) must not change the structure
                            if lname != "mmap" {
                                let inverted: Vec<u8> = bytes.iter().map(|b| !b).collect();
                                if std::fs::write(&good, &inverted).is_ok() {
                                    let mut w2 = Walker::default();
                                    let still = rt::outcome::guarded(|| case.walk(&mut w2) == v).unwrap_or(false);
                                    log.count("file_rewrites_while_loaded", 1);
                                    if !still {
                                        ok = false;
                                        log.violation("C09", &format!("C09/changed-by-file-rewrite/{}", lname), rc.name, Some(&v),
                                            format!("{}: the loaded structure changed when the file ({} bytes) was overwritten while the MemCase was alive: the backing memory is not a private copy", lname, bytes.len()), vec![]);
                                    }
                                    let _ = std::fs::write(&good, &bytes);
                                }
                            }
                            drop(case);
                            let c2 = rt::alloc::counters();
                            let m2 = maps_summary();
                            if !ok {
                                bad.push("value differs".to_string());
                            }
                            if let Some((_, len, _)) = region {
                                if lname == "load_mem" {
                                    if c1.live - c0.live < len as i64 {
                                        bad.push(format!("backing block of {} bytes not accounted as live while the case lives", len));
                                    }
                                } else if m1.0 < m0.0 + 1 && len > 0 {
                                    bad.push("no additional mapping while the case lives".to_string());
                                }
                            }
                            if c2.live != c0.live {
                                bad.push(format!("{} heap bytes still live after drop", c2.live - c0.live));
                            }
                            if m2.0 != m0.0 || m2.1 != m0.1 {
                                bad.push(format!("mappings ({}, {} bytes) before, ({}, {} bytes) after drop", m0.0, m0.1, m2.0, m2.1));
                            }
                        }
                        Err(f) => bad.push(format!("load failed: {}", fail_str(&f))),
                    }
                    if bad.is_empty() {
                        if attempt == 0 {
                            log.count("release_checks", 1);
                        }
                        prev = None;
                        break;
                    }
                    if attempt == 0 {
                        prev = Some(bad);
                    } else {
                        prev = Some(bad);
                    }
                }
                if let Some(bad) = prev {
                    log.violation("C09", &format!("C09/release/{}", lname), rc.name, Some(&v), format!("{} (repeatable): {}", lname, bad.join("; ")), vec![]);
                }
            }
            // (2) no leak on failure
            let mut causes: Vec<(String, Option<Vec<u8>>)> = vec![];
            // wrong type: the bytes of another root with a different signature
            let mysig = model::hash::sig(&rc.ty);
            if let Some(other) = all.iter().cycle().skip(ri * 7 + 1).take(all.len()).find(|o| model::hash::sig(&o.ty()) != mysig) {
                let oc = RootCtx { root: *other, name: other.name(), ty: other.ty() };
                if let Ok(ob) = ser_plain(&oc, &values(&oc, cfg.seed, 1)[0]) {
                    causes.push(("wrong-type".into(), Some(ob)));
                }
            }
            for (name, at, val) in [("magic", 0usize, 0xffu8), ("major", 8, 7), ("minor", 11, 9), ("usize-width", 12, 4), ("type-hash", 15, 0x55), ("align-hash", 25, 0xaa)] {
                let mut m = bytes.clone();
                m[at] ^= val;
                causes.push((format!("corrupt-{}", name), Some(m)));
            }
            let mut cuts = vec![1usize, 12, 29, bytes.len() / 2, bytes.len() - 1];
            if cfg.thorough {
                cuts.extend((0..bytes.len()).step_by(9));
            }
            {
                // partially built arrays of deep-copy items: cut inside every item
                let mut cs = std::collections::BTreeSet::new();
                rc.ty.constructors(&mut cs);
                if cs.contains("[deep;n]") {
                    cuts.extend((29..bytes.len()).step_by(if cfg.thorough { 1 } else { 2 }));
                }
            }
            cuts.sort();
            cuts.dedup();
            for k in cuts.into_iter().filter(|k| *k < bytes.len()) {
                causes.push((format!("truncated@{}", if k < 29 { "header" } else if k + 1 == bytes.len() { "last-byte" } else { "payload" }), Some(bytes[..k].to_vec())));
            }
            if over {
                causes.push(("overaligned-type".into(), Some(bytes.clone())));
            }
            causes.push(("empty-file".into(), Some(vec![])));
            causes.push(("missing-file".into(), None));
            // an I/O error while the file BODY is read: a directory opens and reports a length, but read fails (EISDIR)
            causes.push(("directory-as-file".into(), None));
            for (cause, content) in causes {
                let path = if cause == "directory-as-file" { dir.join("bad.dir") } else { dir.join("bad.bin") };
                match &content {
                    Some(c) => std::fs::write(&path, c).unwrap(),
                    None if cause == "directory-as-file" => {
                        let _ = std::fs::create_dir_all(&path);
                    }
                    None => {
                        let _ = std::fs::remove_file(&path);
                    }
                }
                let mut all_loaders: Vec<(Option<Loader>, &str)> = vec![(None, "load_full")];
                all_loaders.extend(loaders().into_iter().map(|(l, n, _)| (Some(l), n)));
                for (ld, lname) in all_loaders {
                    if cause == "overaligned-type" && lname != "load_mem" {
                        continue;
                    }
                    log.count("evaluations", 1);
                    log.count("failed_loads", 1);
                    log.set("failure_causes", cause.clone());
                    log.distinct(model::rng::fnv(rc.name) ^ model::rng::fnv(&cause) ^ model::rng::fnv(lname).rotate_left(9));
                    let zero_extending = matches!(ld, Some(Loader::Mem) | Some(Loader::LoadMmap));
                    let mut verdict: Option<Vec<String>> = None;
                    for _attempt in 0..2 {
                        let m0 = maps_summary();
                        let c0 = rt::alloc::counters();
                        let failed = match ld {
                            None => rc.root.load_full(&path).is_err(),
                            Some(l) => rc.root.load_case(l, &path, 0).is_err(),
                        };
                        let c1 = rt::alloc::counters();
                        let m1 = maps_summary();
                        if !failed {
                            if cause == "overaligned-type" {
                                log.count("overaligned_but_loadable_at_this_address", 1);
                            } else if cause.starts_with("truncated") && zero_extending {
                                // the copying loaders zero-extend the file: a cut inside the
                                // type name or in trailing zero bytes can legitimately load
                                log.count("truncated_but_loadable_after_zero_extension", 1);
                            } else {
                                log.violation("C09", &format!("C09/accepted/{}/{}", lname, cause.split('@').next().unwrap_or("")), rc.name, Some(&v),
                                    format!("{} of a {} file returned a value", lname, cause), vec![]);
                            }
                        }
                        let mut bad = vec![];
                        if c1.live != c0.live {
                            bad.push(format!("{} heap bytes leaked per call", c1.live - c0.live));
                        }
                        if c1.zero_sized != c0.zero_sized {
                            log.violation("C09", &format!("C09/zero-sized-alloc/{}", lname), rc.name, Some(&v),
                                format!("{} on a {} file called the allocator with a zero-sized layout ({} times): undefined behaviour, and the chunk is never released", lname, cause, c1.zero_sized - c0.zero_sized), vec![]);
                        }
                        if m1.0 != m0.0 || m1.1 != m0.1 {
                            bad.push(format!("memory mappings ({}, {} bytes) -> ({}, {} bytes); still mapped: {:?}", m0.0, m0.1, m1.0, m1.1, m1.2));
                        }
                        if bad.is_empty() {
                            verdict = None;
                            break;
                        }
                        // a one-time lazy initialisation does not repeat
                        verdict = Some(bad);
                    }
                    match verdict {
                        None => log.count("failed_loads_clean", 1),
                        Some(bad) => log.violation("C09", &format!("C09/leak-on-failure/{}", lname), rc.name, Some(&v),
                            format!("{} failing on a {} file ({}), repeatable: {}", lname, cause, class, bad.join("; ")), vec![]),
                    }
                }
            }
            log.sample(J::obj(vec![("type", J::s(rc.name)), ("value", J::s(show_val(&v))), ("file_len", J::u(bytes.len() as u64))]));
        }
    }
    let _ = std::fs::remove_dir_all(&dir);
}

/// Workload traced with strace (C08 flag translation, C09 mapping release):
/// markers are failing `openat` calls so that they appear in the same log.
pub fn run_strace_workload(cfg: &Cfg, log: &mut Log) {
    fn mark(s: &str) {
        let _ = std::fs::File::open(format!("/epv-marker/{}", s));
    }
    let dir = tmpdir(cfg, "c08s");
    let pick = ["Vec<u64>", "d::D1", "Vec<d::Z2>", "String"];
    for rc in my_roots(cfg) {
        if !pick.contains(&rc.name) {
            continue;
        }
        let v = values(&rc, cfg.seed, 9).into_iter().max_by_key(|v| model::gen::val_to_text(v).len()).unwrap();
        let path = dir.join("s.bin");
        if rc.root.store(&v, &path).is_err() {
            log.inconclusive("store failed in strace workload");
            continue;
        }
        let flen = std::fs::metadata(&path).map(|m| m.len()).unwrap_or(0);
        for (ld, lname, flagsets) in loaders() {
            if lname == "load_mem" {
                continue;
            }
            for flags in flagsets {
                log.count("evaluations", 1);
                mark(&format!("begin/{}/{}/{}/{}", lname, flags, flen, rc.name.replace('/', "_")));
                let case = rc.root.load_case(ld, &path, flags);
                match case {
                    Ok(case) => {
                        let region = case.region().unwrap_or((0, 0, 0));
                        mark(&format!("loaded/{:x}/{}", region.0, region.1));
                        let mut w = Walker::default();
                        let ok = case.walk(&mut w) == v;
                        mark(&format!("lastuse/{}", ok));
                        drop(case);
                        mark("dropped");
                    }
                    Err(f) => {
                        mark("failed");
                        log.violation("C08", &format!("C08/load/{}", lname), rc.name, Some(&v), fail_str(&f), vec![]);
                    }
                }
                // and a failing load of the same file as a different type
                mark(&format!("begin-fail/{}/{}", lname, flags));
                let other = all_roots().into_iter().find(|o| o.name() == "Vec<i8>").unwrap();
                let r = other.load_case(ld, &path, flags);
                mark(if r.is_err() { "failed-as-required" } else { "unexpected-ok" });
                drop(r);
                mark("end-fail");
            }
        }
    }
    let _ = std::fs::remove_dir_all(&dir);
}
