//! C16 – slices and exact-size iterators serialise exactly like the vector.
use crate::common::*;
use model::gen::{gen_val, GenParams};
use model::json::J;
use model::rng::{fnv, Rng};
use model::*;
use rt::*;

pub fn seq_roots(cfg: &Cfg) -> Vec<&'static dyn SeqRoot> {
    us::SEQ_ROOTS
        .iter()
        .copied()
        .enumerate()
        .filter(|(i, r)| i % cfg.nshards == cfg.shard && cfg.filter.as_ref().map_or(true, |f| r.name().contains(f.as_str())))
        .map(|(_, r)| r)
        .collect()
}

pub fn seq_values(elem: &Ty, name: &str, seed: u64, n: usize) -> Vec<Val> {
    let ty = Ty::Vec(Box::new(elem.clone()));
    let mut r = Rng::new(seed ^ fnv(name));
    let p = GenParams { max_len: 12, budget: 300 };
    let mut out = vec![Val::Seq(vec![])];
    // one element, then many
    let one = gen_val(&Ty::Array(Box::new(elem.clone()), 1), &mut r, &p);
    out.push(one);
    out.push(gen_val(&Ty::Array(Box::new(elem.clone()), 7), &mut r, &p));
    while out.len() < n {
        out.push(gen_val(&ty, &mut r, &p));
    }
    out
}

fn masked_eq(a: &[u8], b: &[u8], care: &[bool]) -> bool {
    a.len() == b.len() && (0..a.len()).all(|i| !care.get(i).copied().unwrap_or(true) || a[i] == b[i])
}

fn holder_ty(inner: Ty) -> Ty {
    use std::rc::Rc;
    Ty::User(Rc::new(User {
        name: "Holder".into(), path: "rt::extra".into(), is_enum: false, zero: false, reprs: vec![], consts: vec![],
        variants: vec![Variant { name: "".into(), kind: VKind::Named, fields: vec![
            Field { name: "a".into(), ty: inner, eps: true },
            Field { name: "n".into(), ty: Ty::Prim(Prim::U32), eps: false },
        ] }],
        layout: None,
    }))
}

pub fn run(cfg: &Cfg, log: &mut Log) {
    let nvals = if cfg.thorough { 120 } else { 20 } * cfg.scale;
    for sr in seq_roots(cfg) {
        log.count("element_types", 1);
        let elem = sr.elem_ty();
        log.set("element_kinds", if elem.is_zero() { "zero-copy" } else { "deep-copy" });
        let name = sr.name();
        let groups: [(&[Src], usize); 3] = [
            (&[Src::Vec, Src::Slice, Src::Iter], 0),
            (&[Src::HVec, Src::HSlice, Src::HIter], 1),
            (&[Src::HHVec, Src::HHSlice], 2),
        ];
        // hashes: documented as interchangeable
        for (g, _) in &groups {
            let base = sr.hashes(g[0]);
            for s in &g[1..] {
                if !sr.supports(*s) {
                    continue;
                }
                log.count("hash_pairs", 1);
                if sr.hashes(*s) != base {
                    log.violation("C16", &format!("C16/hash/{:?}", s), name, None,
                        format!("{:?} of {} has hashes {:x?}, the vector form has {:x?}", s, name, sr.hashes(*s), base), vec![]);
                }
            }
        }
        for (vi, v) in seq_values(&elem, name, cfg.seed, nvals).into_iter().enumerate() {
            log.begin(name);
            let n = (fnv(name) as u32) ^ vi as u32;
            for (g, nesting) in &groups {
                let mut sink = IoSink::new();
                let base = sr.ser(g[0], &v, n, &mut sink);
                let Ok(blen) = base.result else {
                    log.violation("C16", "C16/vector", name, Some(&v), format!("serialising the vector form failed: {:?}", base.result), vec![]);
                    continue;
                };
                let vbytes = sink.data;
                let tname = model::dec::header(&vbytes).map(|h| h.type_name).unwrap_or_default();
                let (mty, mval) = match nesting {
                    0 => (Ty::Vec(Box::new(elem.clone())), v.clone()),
                    1 => (holder_ty(Ty::Vec(Box::new(elem.clone()))), Val::Struct(vec![v.clone(), Val::P(n as u128)])),
                    _ => (holder_ty(holder_ty(Ty::Vec(Box::new(elem.clone())))),
                          Val::Struct(vec![Val::Struct(vec![v.clone(), Val::P(n as u128)]), Val::P((n ^ 0x55) as u128)])),
                };
                let enc = model::enc::encode(&mty, &mval, &tname);
                if blen != vbytes.len() || !masked_eq(&vbytes, &enc.bytes, &enc.care) {
                    log.violation("C16", "C16/vector-reference", name, Some(&v), "vector form differs from the reference encoding".into(), vec![]);
                }
                for s in &g[1..] {
                    if !sr.supports(*s) {
                        continue;
                    }
                    log.count("evaluations", 1);
                    log.set("sources", format!("{:?}", s));
                    if !v.seq().is_empty() {
                        log.distinct(fnv(name) ^ v.shape_hash() ^ (*s as u64) << 56);
                    }
                    let mut sk = IoSink::new();
                    let r = sr.ser(*s, &v, n, &mut sk);
                    match r.result {
                        Ok(l) if l == sk.data.len() && masked_eq(&sk.data, &vbytes, &enc.care) => log.count("byte_identical", 1),
                        Ok(l) => {
                            let at = (0..sk.data.len().min(vbytes.len())).find(|&i| enc.care.get(i).copied().unwrap_or(true) && sk.data[i] != vbytes[i]);
                            log.violation("C16", &format!("C16/bytes/{:?}", s), name, Some(&v),
                                format!("{:?} form: {} bytes (returned {}), vector form {} bytes; first difference at {:?}", s, sk.data.len(), l, vbytes.len(), at), vec![]);
                        }
                        Err(f) => log.violation("C16", &format!("C16/ser/{:?}", s), name, Some(&v), format!("{:?} form failed: {}", s, fail_str(&f)), vec![]),
                    }
                    if r.protected_hits != 0 {
                        log.violation("C16", &format!("C16/source/{:?}", s), name, Some(&v), "source blocks freed during serialisation".into(), vec![]);
                    }
                    // and it deserialises as the vector type in both modes
                    let mut rd = IoReader::new(&sk.data);
                    match sr.de_full(*nesting, &mut rd) {
                        Ok(back) if back == mval => log.count("deser_full_as_vector", 1),
                        other => log.violation("C16", &format!("C16/deser-full/{:?}", s), name, Some(&v),
                            format!("{:?} stream read as the vector type (full): {:?}", s, other.map(|x| show_val(&x)).map_err(|f| fail_str(&f))), vec![]),
                    }
                    if !model::layout::has_odd_unit(&mty) {
                        let buf = rt::membuf::PlacedBuf::aligned(&sk.data);
                        match sr.de_eps(*nesting, buf.bytes()) {
                            Ok(back) if back == mval => log.count("deser_eps_as_vector", 1),
                            other => log.violation("C16", &format!("C16/deser-eps/{:?}", s), name, Some(&v),
                                format!("{:?} stream read as the vector type (ε): {:?}", s, other.map(|x| show_val(&x)).map_err(|f| fail_str(&f))), vec![]),
                        }
                    }
                }
            }
            log.sample(J::obj(vec![("element", J::s(name)), ("items", J::s(show_val(&v)))]));
        }
        // lying iterators: all (announced, actual) pairs in [0,8]²
        if sr.supports(Src::Iter) {
            let mut r = Rng::new(cfg.seed ^ fnv(name) ^ 0x11);
            for m in 0..=8usize {
                let v = gen_val(&Ty::Array(Box::new(elem.clone()), m), &mut r, &GenParams::default());
                let mut vs = IoSink::new();
                let _ = sr.ser(Src::Vec, &v, 0, &mut vs);
                let tname = model::dec::header(&vs.data).map(|h| h.type_name).unwrap_or_default();
                let enc = model::enc::encode(&Ty::Vec(Box::new(elem.clone())), &v, &tname);
                for n in 0..=8usize {
                    log.count("evaluations", 1);
                    log.count("lying_pairs", 1);
                    log.distinct(fnv(name) ^ ((n * 16 + m) as u64) << 40);
                    let mut sk = IoSink::new();
                    let got = sr.ser_lying(&v, n, &mut sk);
                    let ok = if n == m {
                        matches!(got, Ok(l) if l == sk.data.len()) && masked_eq(&sk.data, &vs.data, &enc.care)
                    } else {
                        got == Err(Fail::Err(SerErr::IterLen { actual: m, expected: n }))
                    };
                    if ok {
                        log.count(if n == m { "honest_iterator_ok" } else { "length_mismatch_reported" }, 1);
                    } else {
                        log.violation("C16", "C16/lying-iterator", name, Some(&v),
                            format!("iterator announcing {} and yielding {}: {:?}", n, m, got.map_err(|f| fail_str(&f))), vec![]);
                    }
                }
            }
        }
    }
}
