//! C11 – a truncated stream is never deserialised into a value.
use crate::common::*;
use model::json::J;
use rt::*;

fn region_of(enc: &model::enc::Enc, k: usize) -> &'static str {
    if k < 29 {
        return "fixed-header";
    }
    if k < enc.header_len {
        return "type-name";
    }
    for t in &enc.tags {
        if k >= t.off && k < t.off + t.width {
            return "tag";
        }
    }
    for l in &enc.lens {
        if k >= l.off && k < l.off + 8 {
            return "length-prefix";
        }
    }
    for b in &enc.blocks {
        if k >= b.pad_from && k < b.off {
            return "padding";
        }
        if k >= b.off && k < b.off + b.len {
            return "zero-copy-block";
        }
    }
    "scalar"
}

pub fn run(cfg: &Cfg, log: &mut Log) {
    let nvals = if cfg.thorough { 12 } else { 3 } * cfg.scale;
    let dir = std::path::PathBuf::from(&cfg.tmpdir).join(format!("c11-{}-{}", cfg.shard, std::process::id()));
    let _ = std::fs::create_dir_all(&dir);
    for rc in my_roots(cfg) {
        log.count("roots", 1);
        let class = ty_class(&rc.ty);
        for (vi, v) in values(&rc, cfg.seed, nvals).into_iter().enumerate() {
            log.begin(rc.name);
            let Ok(bytes) = ser_plain(&rc, &v) else {
                log.violation("C11", "C11/serialize", rc.name, Some(&v), "serialize failed".into(), vec![]);
                continue;
            };
            let enc = model::enc::encode(&rc.ty, &v, rc.root.type_name());
            log.distinct(model::rng::fnv(rc.name) ^ v.shape_hash());
            for k in 0..bytes.len() {
                let prefix = &bytes[..k];
                log.count("evaluations", 2);
                log.count("cut_points", 1);
                let reg = region_of(&enc, k);
                log.set("cut_regions", reg);
                // full-copy: must be a read error
                let mut rd = IoReader::new(prefix);
                match rc.root.full(&mut rd) {
                    Err(Fail::Err(DeErr::Read)) => log.count("full_read_error", 1),
                    other => {
                        let g = match &other { Ok(val) => format!("Ok({})", show_val(val)), Err(f) => fail_str(f) };
                        log.violation("C11", &format!("C11/full/{}/{}", reg, class), rc.name, Some(&v),
                            format!("stream of {} bytes cut at {} ({}): deserialize_full gives {} instead of ReadError", bytes.len(), k, reg, g), vec![]);
                    }
                }
                // ε-copy of the exact prefix (exactly k bytes of heap: any
                // over-read is visible to ASan / Miri / valgrind)
                let buf = rt::membuf::PlacedBuf::aligned(prefix);
                match rc.root.eps_outcome(buf.bytes()) {
                    Err(Fail::Err(_)) => log.count("eps_error", 1),
                    Err(Fail::Panic(_)) => log.count("eps_bounds_panic", 1),
                    Ok(()) => log.violation("C11", &format!("C11/eps/{}/{}", reg, class), rc.name, Some(&v),
                        format!("stream of {} bytes cut at {} ({}): deserialize_eps returned a value", bytes.len(), k, reg), vec![]),
                }
            }
            // file-backed entry points that do not zero-extend, on sampled cuts
            if vi == 0 {
                let mut cuts = vec![0usize, 1, 28, enc.header_len.saturating_sub(1), enc.header_len, bytes.len() / 2, bytes.len() - 1];
                if cfg.thorough {
                    cuts.extend((0..bytes.len()).step_by(5));
                }
                cuts.sort();
                cuts.dedup();
                for k in cuts.into_iter().filter(|k| *k < bytes.len()) {
                    let path = dir.join("t.bin");
                    if std::fs::write(&path, &bytes[..k]).is_err() {
                        log.inconclusive("cannot write temp file");
                        break;
                    }
                    log.count("evaluations", 2);
                    log.count("file_cuts", 1);
                    match rc.root.load_full(&path) {
                        Err(Fail::Err(DeErr::Read)) => log.count("load_full_read_error", 1),
                        other => {
                            let g = match &other { Ok(val) => format!("Ok({})", show_val(val)), Err(f) => fail_str(f) };
                            log.violation("C11", &format!("C11/load_full/{}", class), rc.name, Some(&v),
                                format!("file truncated to {} of {} bytes: load_full gives {}", k, bytes.len(), g), vec![]);
                        }
                    }
                    #[cfg(feature = "mmap")]
                    match rc.root.load_case(Loader::Mmap, &path, 0) {
                        Err(_) => log.count("mmap_failed_as_required", 1),
                        Ok(_) => log.violation("C11", &format!("C11/mmap/{}", class), rc.name, Some(&v),
                            format!("file truncated to {} of {} bytes: mmap returned a value", k, bytes.len()), vec![]),
                    }
                }
            }
            log.sample(J::obj(vec![("type", J::s(rc.name)), ("value", J::s(show_val(&v))), ("cuts", J::u(bytes.len() as u64))]));
        }
    }
    let _ = std::fs::remove_dir_all(&dir);
}
