//! C14 – reader fragmentation does not change the value; reader failure is
//! a read error.
use crate::common::*;
use model::json::J;
use model::rng::Rng;
use rt::*;

pub fn run(cfg: &Cfg, log: &mut Log) {
    let nvals = if cfg.thorough { 12 } else { 3 } * cfg.scale;
    for rc in my_roots(cfg) {
        log.count("roots", 1);
        let class = ty_class(&rc.ty);
        for v in values(&rc, cfg.seed, nvals) {
            log.begin(rc.name);
            let Ok(bytes) = ser_plain(&rc, &v) else {
                log.violation("C14", "C14/serialize", rc.name, Some(&v), "serialize failed".into(), vec![]);
                continue;
            };
            log.distinct(model::rng::fnv(rc.name) ^ v.shape_hash());
            let l = bytes.len();
            let pats: Vec<(String, Chunk, usize)> = vec![
                ("1 byte per call".into(), Chunk::Fixed(1), 0),
                ("2 bytes per call".into(), Chunk::Fixed(2), 0),
                ("7 bytes per call".into(), Chunk::Fixed(7), 0),
                ("prime cycle".into(), Chunk::Cycle(vec![2, 3, 5, 7, 11, 13]), 0),
                ("random sizes".into(), Chunk::Rand(Rng::new(cfg.seed ^ l as u64), 19), 0),
                ("interrupted every 2nd call".into(), Chunk::All, 2),
                ("1 byte + interrupted every 3rd".into(), Chunk::Fixed(1), 3),
                ("random + interrupted every 4th".into(), Chunk::Rand(Rng::new(cfg.seed.wrapping_add(l as u64)), 5), 4),
            ];
            for (name, chunk, intr) in pats {
                let mut rd = IoReader::new(&bytes);
                rd.chunk = chunk;
                rd.interrupt_every = intr;
                log.count("evaluations", 1);
                log.count("chunk_patterns", 1);
                log.count("read_calls", 0);
                match rc.root.full(&mut rd) {
                    Ok(back) if back == v && rd.pos == l => {
                        log.count("same_value", 1);
                        log.count("read_calls", rd.calls as u64);
                    }
                    Ok(back) => log.violation("C14", &format!("C14/chunk-value/{}", class), rc.name, Some(&v),
                        format!("reader delivering {}: value {} (consumed {} of {})", name, show_val(&back), rd.pos, l), vec![]),
                    Err(f) => log.violation("C14", &format!("C14/chunk-fail/{}", class), rc.name, Some(&v),
                        format!("reader delivering {}: {}", name, fail_str(&f)), vec![]),
                }
            }
            for k in 0..l {
                for chunked in [false, true] {
                    if chunked && k % 5 != 0 {
                        continue;
                    }
                    let mut rd = IoReader::new(&bytes);
                    rd.fail_at = Some(k);
                    if chunked {
                        rd.chunk = Chunk::Fixed(3);
                        rd.interrupt_every = 3;
                    }
                    log.count("evaluations", 1);
                    log.count("fault_positions", 1);
                    match rc.root.full(&mut rd) {
                        Err(Fail::Err(DeErr::Read)) => log.count("read_error_returned", 1),
                        other => {
                            let g = match &other { Ok(val) => format!("Ok({})", show_val(val)), Err(f) => fail_str(f) };
                            log.violation("C14", &format!("C14/fail-at/{}", class), rc.name, Some(&v),
                                format!("reader failing at byte {} of {}: {} instead of ReadError", k, l, g), vec![]);
                        }
                    }
                }
            }
            log.sample(J::obj(vec![("type", J::s(rc.name)), ("value", J::s(show_val(&v))), ("fault_positions", J::u(l as u64))]));
        }
        // large values: single requests beyond 2^16 bytes, fragmented at sizes below, around and above that
        for v in big_values(&rc) {
            log.begin(rc.name);
            let Ok(bytes) = ser_plain(&rc, &v) else {
                log.violation("C14", "C14/serialize", rc.name, Some(&v), "serialize failed".into(), vec![]);
                continue;
            };
            let l = bytes.len();
            log.count("large_values", 1);
            log.distinct(model::rng::fnv(rc.name) ^ v.shape_hash());
            let pats: Vec<(String, Chunk, usize)> = vec![
                ("1 byte per call".into(), Chunk::Fixed(1), 0),
                ("4096 bytes per call".into(), Chunk::Fixed(4096), 0),
                ("20000 bytes per call".into(), Chunk::Fixed(20000), 0),
                ("65535 bytes per call".into(), Chunk::Fixed(65535), 0),
                ("65537 bytes per call".into(), Chunk::Fixed(65537), 0),
                ("cycle 70000/1/4095".into(), Chunk::Cycle(vec![70000, 1, 4095]), 0),
                ("random sizes up to 100000".into(), Chunk::Rand(Rng::new(cfg.seed ^ l as u64), 100_000), 0),
                ("random sizes up to 3000 + interrupted every 3rd".into(), Chunk::Rand(Rng::new(cfg.seed.wrapping_add(l as u64)), 3000), 3),
            ];
            for (name, chunk, intr) in pats {
                let mut rd = IoReader::new(&bytes);
                rd.chunk = chunk;
                rd.interrupt_every = intr;
                log.count("evaluations", 1);
                log.count("chunk_patterns", 1);
                log.count("large_chunk_patterns", 1);
                match rc.root.full(&mut rd) {
                    Ok(back) if back == v && rd.pos == l => {
                        log.count("same_value", 1);
                        log.count("read_calls", rd.calls as u64);
                    }
                    Ok(_) => log.violation("C14", &format!("C14/chunk-value/{}", class), rc.name, None,
                        format!("large value ({} bytes), reader delivering {}: different value (consumed {} of {})", l, name, rd.pos, l), vec![]),
                    Err(f) => log.violation("C14", &format!("C14/chunk-fail/{}", class), rc.name, None,
                        format!("large value ({} bytes), reader delivering {}: {}", l, name, fail_str(&f)), vec![]),
                }
            }
            let mut r = Rng::new(cfg.seed ^ 0xC14 ^ l as u64);
            let mut ks: Vec<usize> = vec![0, 1, 36, l / 2, l - 1, 65535.min(l - 1), 65536.min(l - 1), 65537.min(l - 1), l.saturating_sub(65536)];
            for _ in 0..24 {
                ks.push(r.below(l));
            }
            for k in ks {
                let mut rd = IoReader::new(&bytes);
                rd.fail_at = Some(k);
                rd.chunk = Chunk::Fixed(30000);
                log.count("evaluations", 1);
                log.count("fault_positions", 1);
                match rc.root.full(&mut rd) {
                    Err(Fail::Err(DeErr::Read)) => log.count("read_error_returned", 1),
                    other => {
                        let g = match &other { Ok(_) => "Ok(..)".to_string(), Err(f) => fail_str(f) };
                        log.violation("C14", &format!("C14/fail-at/{}", class), rc.name, None,
                            format!("large value: reader failing at byte {} of {}: {} instead of ReadError", k, l, g), vec![]);
                    }
                }
            }
        }
    }
}
