//! C13 – writer failures: error, clean prefix, intact source.
use crate::common::*;
use model::json::J;
use model::rng::Rng;
use rt::*;

pub fn judge_fail(log: &mut Log, prop_sig: &str, name: &str, v: &model::Val, what: &str, g: &GuardedSer, sink: &IoSink, clean: &[u8], care: &[bool], must_fail: bool) {
    let same = |a: &[u8], b: &[u8]| a.len() == b.len() && (0..a.len()).all(|i| !care.get(i).copied().unwrap_or(true) || a[i] == b[i]);
    log.count("evaluations", 1);
    log.count("protected_blocks", g.protected_blocks as u64);
    let mut bad = vec![];
    match (&g.result, must_fail) {
        (Err(Fail::Err(SerErr::Write)), true) => log.count("write_error_returned", 1),
        (Ok(n), false) => {
            if *n != clean.len() || !same(&sink.data, clean) {
                bad.push(format!("benign writer received {} bytes (returned {}), fault-free stream has {}", sink.data.len(), n, clean.len()));
            } else {
                log.count("benign_exact", 1);
            }
        }
        (other, _) => bad.push(format!("result {}, expected {}", match other { Ok(n) => format!("Ok({})", n), Err(f) => fail_str(f) },
            if must_fail { "Err(WriteError)" } else { "Ok" })),
    }
    if sink.data.len() > clean.len() || !same(&sink.data, &clean[..sink.data.len()]) {
        bad.push(format!("the {} accepted bytes are not a prefix of the fault-free stream", sink.data.len()));
    }
    if g.protected_hits != 0 {
        bad.push(format!("{} heap block(s) owned by the value being serialised were freed or reallocated during the call", g.protected_hits));
    } else if g.changed {
        bad.push("the source value changed".into());
    } else {
        log.count("source_intact", 1);
    }
    if !bad.is_empty() {
        log.violation("C13", prop_sig, name, Some(v), format!("{}: {}", what, bad.join("; ")), vec![]);
    }
}

pub fn run_seq(cfg: &Cfg, log: &mut Log) {
    let nvals = if cfg.thorough { 12 } else { 4 } * cfg.scale;
    for sr in crate::c16::seq_roots(cfg) {
        let elem = sr.elem_ty();
        let name = sr.name();
        for v in crate::c16::seq_values(&elem, name, cfg.seed, nvals) {
            log.begin(name);
            for s in [Src::Slice, Src::Iter, Src::HSlice, Src::HIter, Src::HHSlice, Src::Vec, Src::HVec] {
                if !sr.supports(s) {
                    continue;
                }
                let mut cs = IoSink::new();
                let c = sr.ser(s, &v, 7, &mut cs);
                if c.result.is_err() {
                    log.violation("C13", &format!("C13/seq-serialize/{:?}", s), name, Some(&v), format!("{:?}", c.result), vec![]);
                    continue;
                }
                let clean = cs.data;
                let all_care = vec![true; 0];
                // mask: padding inside zero-copy elements may differ between runs
                let tname = model::dec::header(&clean).map(|h| h.type_name).unwrap_or_default();
                let care = if matches!(s, Src::Slice | Src::Iter | Src::Vec) {
                    model::enc::encode(&model::Ty::Vec(Box::new(elem.clone())), &v, &tname).care
                } else {
                    all_care
                };
                let elem_padded = care.iter().any(|c| !*c);
                if !matches!(s, Src::Slice | Src::Iter | Src::Vec) && elem.is_zero() && model::layout::size_align(&elem).0 > 0 {
                    // holders of padded elements: compare lengths only
                }
                log.set("borrowed_sources", format!("{:?}", s));
                log.distinct(model::rng::fnv(name) ^ v.shape_hash() ^ ((s as u64) << 50));
                let l = clean.len();
                for k in 0..=l {
                    let mut sink = IoSink::failing_at(k);
                    let g = sr.ser(s, &v, 7, &mut sink);
                    log.count("fault_positions", 1);
                    log.count("seq_fault_positions", 1);
                    let care_k: Vec<bool> = if care.is_empty() {
                        // unknown mask: only judge bytes up to the header, lengths otherwise
                        (0..l).map(|i| i < 37).collect()
                    } else {
                        care.clone()
                    };
                    let _ = elem_padded;
                    judge_fail(log, &format!("C13/seq-fail-at/{:?}", s), name, &v,
                        &format!("{:?} of {}: writer fails at byte {} of {}", s, name, k, l), &g, &sink, &clean, &care_k, k < l);
                }
                let care_k: Vec<bool> = if care.is_empty() { (0..l).map(|i| i < 37).collect() } else { care.clone() };
                // transient fault: one rejected write call, later ones accepted
                let calls = {
                    let mut p = IoSink::new();
                    let _ = sr.ser(s, &v, 7, &mut p);
                    p.data_calls
                };
                let step = (calls / 120).max(1);
                for c in (0..calls).filter(|c| *c < 40 || c % step == 0 || *c + 3 >= calls) {
                    let mut sink = IoSink::new();
                    sink.reject_call = Some(c);
                    let g = sr.ser(s, &v, 7, &mut sink);
                    log.count("transient_faults", 1);
                    judge_fail(log, &format!("C13/seq-transient/{:?}", s), name, &v,
                        &format!("{:?} of {}: writer rejects write call {} of {} once ({} bytes offered after the error)", s, name, c, calls, sink.offered_after_error),
                        &g, &sink, &clean, &care_k, true);
                }
                let mut sink = IoSink::new();
                sink.flush_fails = true;
                let g = sr.ser(s, &v, 7, &mut sink);
                judge_fail(log, &format!("C13/seq-flush/{:?}", s), name, &v, &format!("{:?}: flush fails", s), &g, &sink, &clean, &care_k, true);
            }
        }
    }
}

pub fn run(cfg: &Cfg, log: &mut Log) {
    let nvals = if cfg.thorough { 10 } else { 3 } * cfg.scale;
    for rc in my_roots(cfg) {
        log.count("roots", 1);
        let class = ty_class(&rc.ty);
        for v in values(&rc, cfg.seed, nvals) {
            log.begin(rc.name);
            let Ok(clean) = ser_plain(&rc, &v) else {
                log.violation("C13", "C13/serialize", rc.name, Some(&v), "serialize failed".into(), vec![]);
                continue;
            };
            log.distinct(model::rng::fnv(rc.name) ^ v.shape_hash());
            let enc = model::enc::encode(&rc.ty, &v, rc.root.type_name());
            let l = clean.len();
            // failure at every position
            for k in 0..=l {
                for zero in [false, true] {
                    if zero && k % 7 != 0 {
                        continue;
                    }
                    let mut sink = IoSink::failing_at(k);
                    sink.zero_at_limit = zero;
                    let g = rc.root.ser_guarded(&v, &mut sink);
                    log.count("fault_positions", 1);
                    judge_fail(log, &format!("C13/fail-at/{}", class), rc.name, &v,
                        &format!("writer {} at byte {} of {}", if zero { "returns Ok(0)" } else { "fails" }, k, l), &g, &sink, &clean, &enc.care, k < l);
                }
            }
            // flush failure
            // (every error kind: a flush that keeps answering Interrupted,
            // WouldBlock, ... has still failed and must not be reported as success)
            for kind in [std::io::ErrorKind::Other, std::io::ErrorKind::Interrupted, std::io::ErrorKind::WouldBlock,
                         std::io::ErrorKind::TimedOut, std::io::ErrorKind::WriteZero, std::io::ErrorKind::BrokenPipe] {
                let mut sink = IoSink::new();
                sink.flush_fails = true;
                sink.flush_kind = kind;
                let g = rc.root.ser_guarded(&v, &mut sink);
                let tag = if kind == std::io::ErrorKind::Other { format!("C13/flush/{}", class) } else { format!("C13/flush-{:?}/{}", kind, class) };
                judge_fail(log, &tag, rc.name, &v, &format!("flush fails ({:?})", kind), &g, &sink, &clean, &enc.care, true);
                log.count("flush_failures", 1);
            }
            // short-write and interrupted-retry patterns
            let pats: Vec<(String, Chunk, usize)> = vec![
                ("1 byte per call".into(), Chunk::Fixed(1), 0),
                ("3 bytes per call".into(), Chunk::Fixed(3), 0),
                ("prime cycle".into(), Chunk::Cycle(vec![2, 3, 5, 7, 11, 13]), 0),
                ("random sizes".into(), Chunk::Rand(Rng::new(cfg.seed ^ l as u64), 17), 0),
                ("interrupted every 2nd call".into(), Chunk::All, 2),
                ("1 byte + interrupted every 3rd".into(), Chunk::Fixed(1), 3),
                ("random + interrupted every 5th".into(), Chunk::Rand(Rng::new(cfg.seed.wrapping_add(l as u64)), 9), 5),
            ];
            for (name, chunk, intr) in pats {
                let mut sink = IoSink::new();
                sink.chunk = chunk;
                sink.interrupt_every = intr;
                let g = rc.root.ser_guarded(&v, &mut sink);
                log.count("benign_patterns", 1);
                judge_fail(log, &format!("C13/benign/{}", class), rc.name, &v, &name, &g, &sink, &clean, &enc.care, false);
            }
            // failing short writer: split + fail
            for k in [l / 3, l / 2, l.saturating_sub(1)] {
                let mut sink = IoSink::failing_at(k);
                sink.chunk = Chunk::Fixed(2);
                sink.interrupt_every = 4;
                let g = rc.root.ser_guarded(&v, &mut sink);
                judge_fail(log, &format!("C13/fail-split/{}", class), rc.name, &v, &format!("splitting writer fails at byte {}", k), &g, &sink, &clean, &enc.care, k < l);
            }
            // transient fault: exactly one write call is rejected, later calls would be accepted again
            {
                let mut probe = IoSink::new();
                let _ = rc.root.ser(&v, &mut probe);
                let calls = probe.data_calls;
                let cap = if cfg.thorough { 300 } else { 80 };
                let step = (calls / cap).max(1);
                for c in (0..calls).filter(|c| *c < 40 || c % step == 0 || *c + 3 >= calls) {
                    let mut sink = IoSink::new();
                    sink.reject_call = Some(c);
                    let g = rc.root.ser_guarded(&v, &mut sink);
                    log.count("transient_faults", 1);
                    judge_fail(log, &format!("C13/transient/{}", class), rc.name, &v,
                        &format!("writer rejects write call {} of {} once ({} bytes offered after the error)", c, calls, sink.offered_after_error), &g, &sink, &clean, &enc.care, true);
                }
            }
            // the schema-recording entry point must report the same failures
            {
                let mut sink = IoSink::new();
                sink.flush_fails = true;
                log.count("evaluations", 1);
                log.count("schema_entry_faults", 1);
                match rc.root.ser_schema(&v, &mut sink) {
                    Err(Fail::Err(SerErr::Write)) => {}
                    other => log.violation("C13", &format!("C13/schema-flush/{}", class), rc.name, Some(&v),
                        format!("serialize_with_schema into a writer whose flush fails: {:?} (flush called {} times)", other.map(|_| "Ok(schema)").map_err(|f| fail_str(&f)), sink.flushes), vec![]),
                }
                for k in [0usize, 12, 36, l / 2, l.saturating_sub(1)] {
                    if k >= l {
                        continue;
                    }
                    let mut sink = IoSink::failing_at(k);
                    log.count("evaluations", 1);
                    log.count("schema_entry_faults", 1);
                    match rc.root.ser_schema(&v, &mut sink) {
                        Err(Fail::Err(SerErr::Write)) if sink.data.len() <= k => {}
                        other => log.violation("C13", &format!("C13/schema-fail-at/{}", class), rc.name, Some(&v),
                            format!("serialize_with_schema into a writer failing at byte {}: {:?}", k, other.map(|_| "Ok(schema)").map_err(|f| fail_str(&f))), vec![]),
                    }
                }
                // a successful serialization flushes the writer (otherwise a
                // flush-time failure could never be reported)
                let mut ok_sink = IoSink::new();
                if rc.root.ser(&v, &mut ok_sink).is_ok() && ok_sink.flushes == 0 {
                    log.violation("C13", &format!("C13/no-flush/{}", class), rc.name, Some(&v), "serialize never flushed the writer".into(), vec![]);
                }
                let mut ok_sink = IoSink::new();
                if rc.root.ser_schema(&v, &mut ok_sink).is_ok() && ok_sink.flushes == 0 {
                    log.violation("C13", &format!("C13/no-flush-schema/{}", class), rc.name, Some(&v), "serialize_with_schema never flushed the writer".into(), vec![]);
                }
            }
            // the library's own no-std writer trait, failing at the n-th call
            let mut probe = NoStdSink::default();
            if rc.root.ser_nostd(&v, &mut probe).is_ok() {
                let calls = probe.writes.len();
                for c in 0..calls.min(if cfg.thorough { 400 } else { 60 }) {
                    for transient in [false, true] {
                        let mut s = NoStdSink { fail_call: Some(c), transient, ..Default::default() };
                        log.count("evaluations", 1);
                        log.count("nostd_fault_calls", 1);
                        match rc.root.ser_nostd(&v, &mut s) {
                            Err(Fail::Err(SerErr::Write)) if s.data.len() <= clean.len()
                                && (0..s.data.len()).all(|i| !enc.care.get(i).copied().unwrap_or(true) || s.data[i] == clean[i]) => {}
                            other => log.violation("C13", &format!("C13/nostd/{}", class), rc.name, Some(&v),
                                format!("WriteNoStd sink failing {} at call {}: {:?} ({} bytes accepted)", if transient { "once" } else { "from" }, c,
                                    other.map_err(|f| fail_str(&f)), s.data.len()), vec![]),
                        }
                    }
                }
                let mut s = NoStdSink { flush_fails: true, ..Default::default() };
                match rc.root.ser_nostd(&v, &mut s) {
                    Err(Fail::Err(SerErr::Write)) => {}
                    other => log.violation("C13", &format!("C13/nostd-flush/{}", class), rc.name, Some(&v),
                        format!("WriteNoStd sink failing on flush: {:?}", other.map_err(|f| fail_str(&f))), vec![]),
                }
            }
            log.sample(J::obj(vec![("type", J::s(rc.name)), ("value", J::s(show_val(&v))), ("fault_positions", J::u(l as u64 + 1))]));
        }
        // file sinks: /dev/full and a real file
        let v = &values(&rc, cfg.seed, 1)[0];
        if std::fs::OpenOptions::new().write(true).open("/dev/full").is_err() {
            log.count("dev_full_unavailable", 1);
            continue;
        }
        log.count("evaluations", 1);
        match rc.root.store(v, std::path::Path::new("/dev/full")) {
            Err(Fail::Err(SerErr::Write)) => log.count("dev_full_write_error", 1),
            other => log.violation("C13", &format!("C13/dev-full/{}", class), rc.name, Some(v),
                format!("store(\"/dev/full\") gives {:?}, expected Err(WriteError)", other.map_err(|f| fail_str(&f))), vec![]),
        }
    }
}
