//! C02 – ε-copy round trip and agreement with full copy.
//! C03 – borrows are in place, in bounds, aligned; allocation independent of
//!       the borrowed payload.
use crate::common::*;
use model::enc::BlockKind;
use model::json::J;
use rt::rec::Ev;
use rt::*;

pub fn run_c02(cfg: &Cfg, log: &mut Log) {
    let nvals = if cfg.thorough { 400 } else { 40 } * cfg.scale;
    for rc in my_roots(cfg) {
        log.count("roots", 1);
        if model::layout::has_odd_unit(&rc.ty) {
            log.count("roots_skipped_non_power_of_two_unit", 1);
            continue;
        }
        let class = ty_class(&rc.ty);
        for v in values(&rc, cfg.seed, nvals).into_iter().chain(big_values(&rc)) {
            log.begin(rc.name);
            log.count("evaluations", 1);
            let bytes = match ser_plain(&rc, &v) {
                Ok(b) => b,
                Err(e) => {
                    log.violation("C02", &format!("C02/serialize/{}", class), rc.name, Some(&v), format!("serialize failed: {}", e), vec![]);
                    continue;
                }
            };
            let enc = model::enc::encode(&rc.ty, &v, rc.root.type_name());
            if bytes.len() > enc.header_len {
                log.distinct(model::rng::fnv(rc.name) ^ v.shape_hash());
            }
            let buf = rt::membuf::PlacedBuf::aligned(&bytes);
            let mut w = Walker::default();
            let eps = rc.root.eps(buf.bytes(), &mut w);
            let mut rd = IoReader::new(&bytes);
            let full = rc.root.full(&mut rd);
            match &eps {
                Ok((back, _)) => {
                    log.count("borrowed_parts_walked", w.parts.len() as u64);
                    if *back != v {
                        log.violation("C02", &format!("C02/value/{}", class), rc.name, Some(&v),
                            format!("deserialize_eps yields {} for {}", show_val(back), show_val(&v)), vec![]);
                    } else {
                        log.count("eps_equal_original", 1);
                    }
                    match &full {
                        Ok(f) if f == back => log.count("modes_agree", 1),
                        Ok(f) => log.violation("C02", &format!("C02/modes-disagree/{}", class), rc.name, Some(&v),
                            format!("ε-copy describes {} but full-copy describes {}", show_val(back), show_val(f)), vec![]),
                        Err(f) => log.violation("C02", &format!("C02/modes-disagree/{}", class), rc.name, Some(&v),
                            format!("ε-copy succeeds but full-copy fails: {}", fail_str(f)), vec![]),
                    }
                }
                Err(f) => {
                    log.violation("C02", &format!("C02/eps/{}", class), rc.name, Some(&v),
                        format!("deserialize_eps from a 256-aligned buffer failed: {}", fail_str(f)), vec![]);
                }
            }
            log.sample(J::obj(vec![("type", J::s(rc.name)), ("value", J::s(show_val(&v))), ("borrowed_parts", J::u(w.parts.len() as u64))]));
        }
    }
}

pub fn run_c03(cfg: &Cfg, log: &mut Log) {
    let nvals = if cfg.thorough { 300 } else { 30 } * cfg.scale;
    for rc in my_roots(cfg) {
        log.count("roots", 1);
        if model::layout::has_odd_unit(&rc.ty) {
            log.count("roots_skipped_non_power_of_two_unit", 1);
            continue;
        }
        let class = ty_class(&rc.ty);
        for v in values(&rc, cfg.seed, nvals).into_iter().chain(big_values(&rc)) {
            log.begin(rc.name);
            log.count("evaluations", 1);
            // serialise through the recorder: where did the real writer put each block?
            let mut evs = vec![];
            let mut sink = IoSink::new();
            if let Err(f) = rc.root.ser_rec(&v, &mut sink, &mut evs) {
                log.violation("C03", &format!("C03/serialize/{}", class), rc.name, Some(&v), format!("serialize failed: {}", fail_str(&f)), vec![]);
                continue;
            }
            let bytes = sink.data;
            let written: Vec<(usize, usize)> = evs.iter().filter_map(|e| match e {
                Ev::WriteBytes { off, len, .. } => Some((*off, *len)),
                _ => None,
            }).collect();
            let enc = model::enc::encode(&rc.ty, &v, rc.root.type_name());
            let buf = rt::membuf::PlacedBuf::aligned(&bytes);
            let base = buf.addr();
            let mut w = Walker::default();
            let (_, c1) = match rc.root.eps(buf.bytes(), &mut w) {
                Ok(x) => x,
                Err(f) => {
                    log.violation("C03", &format!("C03/eps/{}", class), rc.name, Some(&v), format!("deserialize_eps failed: {}", fail_str(&f)), vec![]);
                    continue;
                }
            };
            let expect: Vec<&model::enc::Block> = enc.blocks.iter().filter(|b| b.eps_borrowed).collect();
            log.count("write_bytes_events", written.len() as u64);
            log.count("borrowed_parts_checked", w.parts.len() as u64);
            log.count("owned_blocks_checked", w.owned.len() as u64);
            if expect.iter().any(|b| b.len > 0) {
                log.distinct(model::rng::fnv(rc.name) ^ v.shape_hash());
            }
            if expect.len() != w.parts.len() {
                log.violation("C03", &format!("C03/part-count/{}", class), rc.name, Some(&v),
                    format!("ε-copy result has {} borrowed parts, the substitution rule requires {} (something was copied that must be borrowed, or vice versa)", w.parts.len(), expect.len()), vec![]);
                continue;
            }
            for (p, b) in w.parts.iter().zip(&expect) {
                let kind_ok = match b.kind {
                    BlockKind::Slice => p.kind == PART_SLICE,
                    BlockKind::Str => p.kind == PART_STR,
                    BlockKind::Ref => p.kind == PART_REF,
                };
                let mut bad = vec![];
                if !kind_ok {
                    bad.push(format!("kind {} for {:?}", p.kind, b.kind));
                }
                if p.count != b.count || p.esize != b.esize {
                    bad.push(format!("covers {}×{} bytes, written {}×{}", p.count, p.esize, b.count, b.esize));
                }
                if p.ptr == 0 || p.ptr % p.ealign.max(1) != 0 {
                    bad.push(format!("pointer {:#x} not aligned to {}", p.ptr, p.ealign));
                }
                if b.len == 0 && b.esize > 0 {
                    // an empty sequence of a sized element type: nothing is
                    // covered, but the slice still has to sit where the writer
                    // placed the (empty) block, inside the buffer
                    log.count("empty_borrowed_parts_checked", 1);
                    if p.ptr < base || p.ptr > base + bytes.len() {
                        bad.push(format!("empty slice at {:#x} lies outside the input buffer [{:#x},+{}]", p.ptr, base, bytes.len()));
                    } else if p.ptr - base != b.off {
                        bad.push(format!("empty slice points at stream offset {}, the block was written at {}", p.ptr - base, b.off));
                    }
                }
                if b.len > 0 {
                    if p.ptr < base || p.ptr + p.count * p.esize > base + bytes.len() {
                        bad.push(format!("[{:#x},+{}) outside the input buffer [{:#x},+{})", p.ptr, p.count * p.esize, base, bytes.len()));
                    } else if p.ptr - base != b.off {
                        bad.push(format!("points at stream offset {}, data was written at {}", p.ptr - base, b.off));
                    }
                    if !written.contains(&(b.off, b.len)) {
                        bad.push(format!("no write_bytes event at ({}, {}) was recorded", b.off, b.len));
                    }
                }
                if !bad.is_empty() {
                    log.violation("C03", &format!("C03/part/{}", class), rc.name, Some(&v),
                        format!("borrowed part for {} ({}): {}", b.path, b.ety, bad.join("; ")), vec![]);
                }
            }
            for o in &w.owned {
                if o.ptr < base + bytes.len() && o.ptr + o.bytes > base {
                    log.violation("C03", &format!("C03/owned-in-buffer/{}", class), rc.name, Some(&v),
                        format!("a rebuilt container's storage {:#x}+{} lies inside the input buffer", o.ptr, o.bytes), vec![]);
                }
            }
            // allocation independence under scaling of the borrowed payload
            if expect.iter().any(|b| b.len > 0 && b.kind != BlockKind::Ref) {
                for k in [2usize, 8, 64] {
                    let vk = model::gen::scale(&rc.ty, &v, true, k);
                    let Ok(bk) = ser_plain(&rc, &vk) else { continue };
                    let bufk = rt::membuf::PlacedBuf::aligned(&bk);
                    let mut wk = Walker::default();
                    if let Ok((back, ck)) = rc.root.eps(bufk.bytes(), &mut wk) {
                        log.count("scaled_runs", 1);
                        log.count("scaled_payload_bytes", bk.len() as u64);
                        if back != vk {
                            log.violation("C03", &format!("C03/scaled-value/{}", class), rc.name, Some(&vk), "scaled value does not round-trip".into(), vec![]);
                        }
                        if ck.allocs != c1.allocs || ck.alloc_bytes != c1.alloc_bytes {
                            log.violation("C03", &format!("C03/alloc-scales/{}", class), rc.name, Some(&v),
                                format!("ε-copy allocated {} bytes in {} calls; with the borrowed payload ×{} it allocated {} bytes in {} calls",
                                    c1.alloc_bytes, c1.allocs, k, ck.alloc_bytes, ck.allocs), vec![]);
                            break;
                        }
                    }
                }
            }
            log.sample(J::obj(vec![("type", J::s(rc.name)), ("value", J::s(show_val(&v))),
                ("borrowed", J::A(w.parts.iter().map(|p| J::s(format!("+{} {}x{}", p.ptr.wrapping_sub(base), p.count, p.esize))).collect())),
                ("alloc_bytes", J::u(c1.alloc_bytes))]));
        }
    }
}
