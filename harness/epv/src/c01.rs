//! C01 – full-copy round trip.
use crate::common::*;
use model::json::J;
use rt::*;

pub fn run(cfg: &Cfg, log: &mut Log) {
    let nvals = if cfg.thorough { 400 } else { 40 } * cfg.scale;
    for rc in my_roots(cfg) {
        log.count("roots", 1);
        let mut cs = std::collections::BTreeSet::new();
        rc.ty.constructors(&mut cs);
        for c in cs {
            log.set("constructors", c);
        }
        log.counters.entry("max_depth".into()).and_modify(|d| *d = (*d).max(rc.ty.depth() as u64)).or_insert(rc.ty.depth() as u64);
        for v in values(&rc, cfg.seed, nvals).into_iter().chain(big_values(&rc)) {
            log.begin(rc.name);
            log.count("evaluations", 1);
            let key = model::rng::fnv(rc.name) ^ v.shape_hash();
            let class = ty_class(&rc.ty);
            let bytes = match ser_plain(&rc, &v) {
                Ok(b) => b,
                Err(e) => {
                    log.violation("C01", &format!("C01/serialize/{}", class), rc.name, Some(&v), format!("serialize failed: {}", e), vec![]);
                    continue;
                }
            };
            if bytes.len() > 29 + 8 + rc.root.type_name().len() {
                log.distinct(key);
            }
            log.count("bytes", bytes.len() as u64);
            let mut rd = IoReader::new(&bytes);
            match rc.root.full(&mut rd) {
                Ok(back) => {
                    if back != v {
                        log.violation("C01", &format!("C01/value/{}", class), rc.name, Some(&v),
                            format!("deserialize_full returned {} for {}", show_val(&back), show_val(&v)), vec![]);
                    } else {
                        log.count("roundtrips_ok", 1);
                    }
                }
                Err(f) => {
                    log.violation("C01", &format!("C01/full/{}", class), rc.name, Some(&v),
                        format!("deserialize_full failed: {}", fail_str(&f)), vec![]);
                }
            }
            // independent second oracle: the reference decoder on the same bytes
            if model::layout::has_odd_unit(&rc.ty) {
                log.count("refdec_skipped_non_power_of_two_unit", 1);
                continue;
            }
            match model::dec::decode(&rc.ty, &bytes) {
                Ok((_, back)) => {
                    if back != v {
                        log.violation("C01", &format!("C01/refdec-value/{}", class), rc.name, Some(&v),
                            format!("reference decoder reads {} from the emitted bytes", show_val(&back)), vec![]);
                    } else {
                        log.count("refdec_ok", 1);
                    }
                }
                Err(e) => {
                    log.violation("C01", &format!("C01/refdec/{}", class), rc.name, Some(&v),
                        format!("reference decoder rejects the emitted bytes: {:?}", e), vec![]);
                }
            }
            log.sample(J::obj(vec![("type", J::s(rc.name)), ("value", J::s(show_val(&v))), ("stream_len", J::u(bytes.len() as u64))]));
        }
    }
}
