//! C15 – variant tags: foreign tags are rejected with InvalidTag(v).
use crate::common::*;
use model::json::J;
use rt::*;

pub fn run(cfg: &Cfg, log: &mut Log) {
    let nvals = if cfg.thorough { 24 } else { 8 } * cfg.scale;
    for rc in my_roots(cfg) {
        log.count("roots", 1);
        if model::layout::has_odd_unit(&rc.ty) {
            continue;
        }
        let class = ty_class(&rc.ty);
        for v in values(&rc, cfg.seed, nvals) {
            log.begin(rc.name);
            let Ok(bytes) = ser_plain(&rc, &v) else {
                log.violation("C15", "C15/serialize", rc.name, Some(&v), "serialize failed".into(), vec![]);
                continue;
            };
            let enc = model::enc::encode(&rc.ty, &v, rc.root.type_name());
            if enc.tags.is_empty() {
                continue;
            }
            log.distinct(model::rng::fnv(rc.name) ^ v.shape_hash());
            // the written tag maps back to the written variant (both modes)
            log.count("evaluations", 2);
            let mut rd = IoReader::new(&bytes);
            let full_ok = matches!(rc.root.full(&mut rd), Ok(ref b) if *b == v);
            let buf = rt::membuf::PlacedBuf::aligned(&bytes);
            let mut w = Walker::default();
            let eps_ok = matches!(rc.root.eps(buf.bytes(), &mut w), Ok((ref b, _)) if *b == v);
            if !full_ok || !eps_ok {
                log.violation("C15", &format!("C15/written-tag/{}", class), rc.name, Some(&v),
                    format!("written tags {:?} do not map back to the written variants (full ok: {}, eps ok: {})",
                        enc.tags.iter().map(|t| (t.sum.clone(), t.written)).collect::<Vec<_>>(), full_ok, eps_ok), vec![]);
            }
            for t in &enc.tags {
                log.count("tag_positions", 1);
                log.set("variants_seen", format!("{}#{}", t.sum, t.written));
                if t.off + t.width == bytes.len() {
                    log.count("tags_at_end_of_stream", 1);
                }
                let foreign: Vec<u64> = if t.width == 1 {
                    (0..=255u64).filter(|x| !t.valid.contains(x)).collect()
                } else {
                    let n = t.valid.len() as u64;
                    vec![n, n + 1, n + 2, 255, 256, (1 << 32) - 1, 1 << 32, 1 << 63, u64::MAX - 1, u64::MAX]
                        .into_iter().filter(|x| !t.valid.contains(x)).collect()
                };
                for fv in foreign {
                    let mut m = bytes.clone();
                    m[t.off..t.off + t.width].copy_from_slice(&fv.to_le_bytes()[..t.width]);
                    let mut rd = IoReader::new(&m);
                    let full = rc.root.full(&mut rd).map(|_| ());
                    let buf = rt::membuf::PlacedBuf::aligned(&m);
                    let eps = rc.root.eps_outcome(buf.bytes());
                    log.count("evaluations", 2);
                    log.count("foreign_tags", 1);
                    for (mode, got) in [("full", full), ("eps", eps)] {
                        match got {
                            Err(Fail::Err(DeErr::InvalidTag(x))) if x as u64 == fv => log.count("rejected_with_that_tag", 1),
                            other => {
                                let g = match &other { Ok(()) => "a value".to_string(), Err(f) => fail_str(f) };
                                log.violation("C15", &format!("C15/foreign/{}/{}", t.sum.split(' ').next().unwrap_or(""), mode), rc.name, Some(&v),
                                    format!("{} tag at offset {} ({}) overwritten with {}: {} deserialisation gives {}, expected Err(InvalidTag({}))",
                                        t.sum, t.off, t.path, fv, mode, g, fv), vec![]);
                            }
                        }
                    }
                }
            }
            log.sample(J::obj(vec![("type", J::s(rc.name)), ("value", J::s(show_val(&v))),
                ("tags", J::A(enc.tags.iter().map(|t| J::s(format!("{}@{} w{} ={}", t.sum, t.off, t.width, t.written))).collect()))]));
        }
    }
}
