//! epv: the monitor binary.  `epv <property> [--seed S] [--tier quick|thorough]
//! [--shard i/n] [--out log.jsonl] [--filter substr] [--tmp dir]`

mod common;
mod c01;
mod c02;
mod c04;
mod c06;
mod c07;
mod c08;
mod c10;
mod c11;
mod c12;
mod c13;
mod c14;
mod c15;
mod c16;
mod c18;
mod c19;

use common::*;

#[global_allocator]
static GLOBAL: rt::alloc::Tracking = rt::alloc::Tracking;

fn main() {
    let args: Vec<String> = std::env::args().collect();
    if args.len() < 2 {
        eprintln!("usage: epv <property> [--seed S] [--tier T] [--shard i/n] [--out F] [--filter S]");
        std::process::exit(64);
    }
    let mut cfg = Cfg {
        prop: args[1].clone(),
        seed: 1,
        thorough: false,
        shard: 0,
        nshards: 1,
        out: None,
        filter: None,
        replay: None,
        tmpdir: "/verif/target/tmp".into(),
        scale: 1,
        user_only: false,
    };
    let mut i = 2;
    while i < args.len() {
        let a = args[i].as_str();
        let v = args.get(i + 1).cloned().unwrap_or_default();
        match a {
            "--seed" => cfg.seed = v.parse().unwrap_or(1),
            "--tier" => cfg.thorough = v == "thorough",
            "--shard" => {
                let (a, b) = v.split_once('/').unwrap_or(("0", "1"));
                cfg.shard = a.parse().unwrap_or(0);
                cfg.nshards = b.parse().unwrap_or(1);
            }
            "--out" => cfg.out = Some(v),
            "--filter" => cfg.filter = Some(v),
            "--replay" => cfg.replay = Some(v),
            "--tmp" => cfg.tmpdir = v,
            "--scale" => cfg.scale = v.parse().unwrap_or(1),
            "--nvals" => NVALS_OVERRIDE.store(v.parse().unwrap_or(0), std::sync::atomic::Ordering::Relaxed),
            _ => {
                eprintln!("unknown argument {}", a);
                std::process::exit(64);
            }
        }
        i += 2;
    }
    let mut log = Log::new(&cfg);
    match cfg.prop.as_str() {
        "noop" => return,
        "list" => {
            for r in all_roots() {
                println!("{}", r.name());
            }
            return;
        }
        "C01" => c01::run(&cfg, &mut log),
        "C02" => c02::run_c02(&cfg, &mut log),
        "C03" => c02::run_c03(&cfg, &mut log),
        "C04" => c04::run(&cfg, &mut log),
        "C05" => {
            cfg.user_only = true;
            for rc in my_roots(&cfg) {
                let mut d = std::collections::BTreeSet::new();
                user_defs(&rc.ty, &mut d);
                for x in d {
                    log.set("definitions", x);
                }
                log.set("instantiations", rc.name);
            }
            c01::run(&cfg, &mut log);
            c02::run_c02(&cfg, &mut log);
            c02::run_c03(&cfg, &mut log);
        }
        "C06" => {
            c06::run(&cfg, &mut log);
            c06::check_corpus(&cfg, &mut log, "/verif/corpus/golden.tsv");
        }
        "C07" => c07::run(&cfg, &mut log),
        "C08" => c08::run_c08(&cfg, &mut log),
        "C09" => c08::run_c09(&cfg, &mut log),
        "C08S" => c08::run_strace_workload(&cfg, &mut log),
        "C10" => c10::run(&cfg, &mut log),
        "C11" => c11::run(&cfg, &mut log),
        "C12" => c12::run(&cfg, &mut log),
        "C13" => {
            c13::run(&cfg, &mut log);
            c13::run_seq(&cfg, &mut log);
        }
        "C14" => c14::run(&cfg, &mut log),
        "C15" => c15::run(&cfg, &mut log),
        "C16" => c16::run(&cfg, &mut log),
        "C18" => c18::run(&cfg, &mut log),
        "C19" => c19::run(&cfg, &mut log),
        "corpus-write" => {
            c06::write_corpus(&cfg, cfg.out.as_deref().unwrap_or("/verif/corpus/golden.tsv"));
            return;
        }
        p => {
            eprintln!("unknown property {}", p);
            std::process::exit(64);
        }
    }
    std::process::exit(log.finish(&cfg));
}
