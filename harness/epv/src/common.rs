//! Shared infrastructure of the monitors: root table, value streams,
//! observation log, violation records.

use model::gen::{gen_val, gen_val_variant, val_to_text, GenParams};
use model::json::J;
use model::rng::{fnv, Rng};
use model::*;
use rt::*;
use std::collections::{BTreeMap, BTreeSet, HashSet};
use std::io::Write;

pub struct Cfg {
    pub prop: String,
    pub seed: u64,
    pub thorough: bool,
    pub shard: usize,
    pub nshards: usize,
    pub out: Option<String>,
    pub filter: Option<String>,
    pub replay: Option<String>,
    pub tmpdir: String,
    pub scale: usize,
    pub user_only: bool,
}

#[cfg(feature = "ub")]
pub fn all_roots() -> Vec<&'static dyn Root> {
    let mut v: Vec<&'static dyn Root> = ub::ROOTS.to_vec();
    v.sort_by_key(|r| r.name());
    v
}

#[cfg(not(feature = "ub"))]
pub fn all_roots() -> Vec<&'static dyn Root> {
    let mut v: Vec<&'static dyn Root> = vec![];
    for t in [u0::ROOTS, u1::ROOTS, u2::ROOTS, u3::ROOTS, u4::ROOTS, u5::ROOTS, u6::ROOTS, u7::ROOTS] {
        v.extend(t.iter().copied());
    }
    // stable order independent of sharding of the generated crates
    v.sort_by_key(|r| r.name());
    v
}

pub fn has_user(t: &Ty) -> bool {
    let mut s = BTreeSet::new();
    t.constructors(&mut s);
    s.iter().any(|c| c.starts_with("user-"))
}

/// Names of the user definitions occurring in a type.
pub fn user_defs(t: &Ty, out: &mut BTreeSet<String>) {
    match t {
        Ty::Phantom(x) | Ty::Vec(x) | Ty::BoxSlice(x) | Ty::Array(x, _) | Ty::Tuple(x, _) | Ty::Opt(x) | Ty::Range(_, x) | Ty::Bound(x) => user_defs(x, out),
        Ty::Flow(a, b) => {
            user_defs(a, out);
            user_defs(b, out);
        }
        Ty::User(u) => {
            out.insert(format!("{}::{}", u.path, u.name));
            for v in &u.variants {
                for f in &v.fields {
                    user_defs(&f.ty, out);
                }
            }
        }
        _ => {}
    }
}

pub struct RootCtx {
    pub root: &'static dyn Root,
    pub name: &'static str,
    pub ty: Ty,
}

pub fn my_roots(cfg: &Cfg) -> Vec<RootCtx> {
    all_roots()
        .into_iter()
        .enumerate()
        .filter(|(i, r)| i % cfg.nshards == cfg.shard && cfg.filter.as_ref().map_or(true, |f| r.name().contains(f.as_str())))
        .map(|(_, r)| RootCtx { root: r, name: r.name(), ty: r.ty() })
        .filter(|rc| !cfg.user_only || has_user(&rc.ty))
        // Types whose alignment unit is not a power of two (known finding
        // under C07) have no well-defined padding: only C07 (which reports
        // them) and the implementation-only round trip of C01 look at them.
        .filter(|rc| matches!(cfg.prop.as_str(), "C01" | "C07" | "corpus-write" | "list") || !model::layout::has_odd_unit(&rc.ty))
        .collect()
}

/// Deterministic value stream of a root: first values that force every
/// variant of an outermost sum type, then seeded random ones.
pub static NVALS_OVERRIDE: std::sync::atomic::AtomicUsize = std::sync::atomic::AtomicUsize::new(0);

pub fn values(rc: &RootCtx, seed: u64, n: usize) -> Vec<Val> {
    let o = NVALS_OVERRIDE.load(std::sync::atomic::Ordering::Relaxed);
    let n = if o > 0 { o } else { n.max(1) };
    let mut r = Rng::new(seed ^ fnv(rc.name));
    let p = GenParams::default();
    let mut out = vec![];
    for vi in 0..8 {
        match gen_val_variant(&rc.ty, vi, &mut r, &p) {
            Some(v) => out.push(v),
            None => break,
        }
    }
    while out.len() < n {
        out.push(gen_val(&rc.ty, &mut r, &p));
    }
    out.truncate(n.max(1));
    out
}

/// A few large values (lengths beyond 2^16, files beyond one and two pages)
/// for a handful of roots: used by the monitors whose cost is linear in the
/// stream length (C01, C02, C03, C06, C07, C08).
pub fn big_values(rc: &RootCtx) -> Vec<Val> {
    if cfg!(miri) {
        // four orders of magnitude slower: a 70 000-element value would outlast the watchdog
        return vec![];
    }
    let seq = |n: usize, f: &dyn Fn(usize) -> Val| Val::Seq((0..n).map(f).collect());
    match rc.name {
        "Vec<u8>" => vec![seq(70_001, &|i| Val::P((i % 251) as u128)), seq(4096, &|i| Val::P((i % 7) as u128)), seq(8192 - 53, &|i| Val::P((i % 5) as u128))],
        "Box<[u8]>" => vec![seq(65_536, &|i| Val::P((i % 253) as u128))],
        "String" => vec![Val::Str("é".repeat(33_000)), Val::Str("x".repeat(4096 - 45)), Val::Str("y".repeat(12_345))],
        "Vec<u64>" => vec![seq(65_537, &|i| Val::P(i as u128 * 0x1_0001)), seq(512, &|i| Val::P(i as u128))],
        "Vec<u16>" => vec![seq(70_000, &|i| Val::P((i & 0xffff) as u128))],
        "Vec<d::Z1>" => vec![seq(65_600, &|i| Val::Struct(vec![Val::P((i % 256) as u128), Val::P(i as u128)]))],
        "Vec<String>" => vec![seq(70_000, &|i| Val::Str(if i % 1000 == 0 { "ab".into() } else { String::new() }))],
        "Vec<Vec<u8>>" => vec![seq(300, &|i| seq(i % 40, &|j| Val::P(j as u128)))],
        "d::D1" => vec![Val::Struct(vec![Val::P(7), Val::Str("z".repeat(66_000)), seq(9000, &|i| Val::P(i as u128))])],
        _ => vec![],
    }
}

#[derive(Default)]
pub struct Log {
    pub counters: BTreeMap<String, u64>,
    pub sets: BTreeMap<String, BTreeSet<String>>,
    pub samples: Vec<J>,
    pub distinct: HashSet<u64>,
    pub violations: Vec<J>,
    pub viol_by_sig: BTreeMap<String, u64>,
    pub inconclusive: Vec<String>,
    pub out: Option<std::fs::File>,
}

impl Log {
    pub fn new(cfg: &Cfg) -> Log {
        let out = cfg.out.as_ref().map(|p| std::fs::File::create(p).expect("cannot create log"));
        Log { out, ..Default::default() }
    }
    pub fn count(&mut self, k: &str, n: u64) {
        *self.counters.entry(k.to_string()).or_insert(0) += n;
    }
    pub fn set(&mut self, k: &str, v: impl Into<String>) {
        self.sets.entry(k.to_string()).or_default().insert(v.into());
    }
    pub fn distinct(&mut self, key: u64) {
        self.distinct.insert(key);
    }
    pub fn sample(&mut self, j: J) {
        if self.samples.len() < 6 {
            self.samples.push(j);
        }
    }
    /// Mark the case about to be judged (flushed, so a crash is attributable).
    pub fn begin(&mut self, what: &str) {
        if let Some(f) = self.out.as_mut() {
            let _ = writeln!(f, "{}", J::obj(vec![("k", J::s("begin")), ("case", J::s(what))]).render());
            let _ = f.flush();
        }
    }
    pub fn inconclusive(&mut self, why: impl Into<String>) {
        let w = why.into();
        if self.inconclusive.len() < 20 {
            self.inconclusive.push(w);
        }
    }
    pub fn violation(&mut self, prop: &str, sig: &str, root: &str, val: Option<&Val>, detail: String, extra: Vec<(&str, J)>) {
        let n = self.viol_by_sig.entry(sig.to_string()).or_insert(0);
        *n += 1;
        if *n > 3 {
            return;
        }
        let mut kv = vec![
            ("k", J::s("viol")),
            ("prop", J::s(prop)),
            ("sig", J::s(sig)),
            ("root", J::s(root)),
            ("val", val.map(|v| J::s(val_to_text(v))).unwrap_or(J::Null)),
            ("detail", J::s(detail)),
        ];
        kv.extend(extra);
        let j = J::obj(kv);
        if let Some(f) = self.out.as_mut() {
            let _ = writeln!(f, "{}", j.render());
            let _ = f.flush();
        }
        self.violations.push(j);
    }
    pub fn finish(mut self, cfg: &Cfg) -> i32 {
        let j = J::obj(vec![
            ("k", J::s("done")),
            ("prop", J::s(cfg.prop.clone())),
            ("shard", J::u(cfg.shard as u64)),
            ("counters", J::O(self.counters.iter().map(|(k, v)| (k.clone(), J::u(*v))).collect())),
            ("sets", J::O(self.sets.iter().map(|(k, v)| (k.clone(), J::A(v.iter().map(J::s).collect()))).collect())),
            ("distinct", J::u(self.distinct.len() as u64)),
            ("samples", J::A(self.samples.clone())),
            ("viol_by_sig", J::O(self.viol_by_sig.iter().map(|(k, v)| (k.clone(), J::u(*v))).collect())),
            ("inconclusive", J::A(self.inconclusive.iter().map(J::s).collect())),
        ]);
        match self.out.as_mut() {
            Some(f) => {
                let _ = writeln!(f, "{}", j.render());
                let _ = f.flush();
            }
            None => println!("{}", j.render()),
        }
        if !self.viol_by_sig.is_empty() {
            if self.out.is_none() {
                for v in &self.violations {
                    println!("{}", v.render());
                }
            }
            1
        } else if !self.inconclusive.is_empty() {
            2
        } else {
            0
        }
    }
}

pub fn show_val(v: &Val) -> String {
    let mut b = 40;
    v.show(&mut b)
}

pub fn fail_str<E: std::fmt::Debug>(f: &Fail<E>) -> String {
    match f {
        Fail::Err(e) => format!("Err({:?})", e),
        Fail::Panic(p) => format!("PANIC({})", p),
    }
}

/// Class of a type for stable violation signatures: the outermost
/// constructor and, for sequences, whether elements are zero/deep.
pub fn ty_class(ty: &Ty) -> String {
    let mut s = BTreeSet::new();
    ty.constructors(&mut s);
    match ty {
        Ty::User(u) => format!("user:{}", u.name),
        Ty::Prim(p) => p.hash_name().to_string(),
        Ty::Vec(t) => format!("Vec<{}>", ty_class_short(t)),
        Ty::BoxSlice(t) => format!("Box<[{}]>", ty_class_short(t)),
        Ty::Array(t, n) => format!("[{};{}]", ty_class_short(t), if *n == 0 { "0" } else { "n" }),
        Ty::Tuple(t, _) => format!("({},..)", ty_class_short(t)),
        Ty::Opt(t) => format!("Option<{}>", ty_class_short(t)),
        Ty::Range(k, t) => format!("{}<{}>", k.ident(), ty_class_short(t)),
        Ty::Bound(t) => format!("Bound<{}>", ty_class_short(t)),
        Ty::Flow(b, c) => format!("ControlFlow<{},{}>", ty_class_short(b), ty_class_short(c)),
        other => other.show(),
    }
}

fn ty_class_short(ty: &Ty) -> &'static str {
    match ty {
        Ty::Unit | Ty::Phantom(_) | Ty::RangeFull => "zst",
        t if t.is_zero() => {
            if model::layout::size_align(t).0 == 0 {
                "zst"
            } else {
                "zero"
            }
        }
        _ => "deep",
    }
}

/// Serialise with a plain sink; `Err` carries a description.
pub fn ser_plain(rc: &RootCtx, v: &Val) -> Result<Vec<u8>, String> {
    let mut sink = IoSink::new();
    match rc.root.ser(v, &mut sink) {
        Ok(n) if n == sink.data.len() => Ok(sink.data),
        Ok(n) => Err(format!("serialize returned {} but the sink received {} bytes", n, sink.data.len())),
        Err(f) => Err(fail_str(&f)),
    }
}
