//! C10 – corruption of the header's checked fields yields the specific error.
use crate::common::*;
use model::json::J;
use rt::*;

fn expect(orig: &[u8], mutated: &[u8]) -> Option<DeErr> {
    let magic = u64::from_le_bytes(mutated[0..8].try_into().unwrap());
    let good = u64::from_le_bytes(*b"epserde ");
    if magic != good {
        return Some(if magic == good.swap_bytes() { DeErr::Endianness } else { DeErr::Magic(magic) });
    }
    let major = u16::from_le_bytes(mutated[8..10].try_into().unwrap());
    if major != 1 {
        return Some(DeErr::Major(major));
    }
    let minor = u16::from_le_bytes(mutated[10..12].try_into().unwrap());
    if minor > 1 {
        return Some(DeErr::Minor(minor));
    }
    if mutated[12] != 8 {
        return Some(DeErr::UsizeSize(mutated[12] as usize));
    }
    let th = u64::from_le_bytes(mutated[13..21].try_into().unwrap());
    let oth = u64::from_le_bytes(orig[13..21].try_into().unwrap());
    if th != oth {
        return Some(DeErr::WrongTypeHash { ser: th, slf: oth });
    }
    let ah = u64::from_le_bytes(mutated[21..29].try_into().unwrap());
    let oah = u64::from_le_bytes(orig[21..29].try_into().unwrap());
    if ah != oah {
        return Some(DeErr::WrongAlignHash { ser: ah, slf: oah });
    }
    None
}

fn judge(log: &mut Log, rc: &RootCtx, v: &model::Val, orig: &[u8], m: &[u8], what: &str, field: &str) {
    let want = expect(orig, m);
    log.count("evaluations", 2);
    log.set("fields", field);
    let mut rd = IoReader::new(m);
    let full = rc.root.full(&mut rd);
    let buf = rt::membuf::PlacedBuf::aligned(m);
    let mut w = Walker::default();
    let eps = rc.root.eps(buf.bytes(), &mut w).map(|x| x.0);
    for (mode, got) in [("full", full), ("eps", eps)] {
        let ok = match (&want, &got) {
            (Some(e), Err(Fail::Err(g))) => e == g,
            (None, Ok(val)) => val == v,
            _ => false,
        };
        if ok {
            log.count(if want.is_some() { "rejected_with_specific_error" } else { "accepted_same_value" }, 1);
            if let Some(e) = &want {
                log.set("errors_seen", e.kind());
            }
        } else {
            let g = match &got {
                Ok(val) => format!("Ok({})", show_val(val)),
                Err(f) => fail_str(f),
            };
            log.violation("C10", &format!("C10/{}/{}", field, mode), rc.name, Some(v),
                format!("{}: {} deserialisation gives {}, expected {}", what, mode, g,
                    want.as_ref().map(|e| format!("Err({:?})", e)).unwrap_or_else(|| "the same value".into())), vec![]);
        }
    }
}

fn field_of(i: usize) -> &'static str {
    match i {
        0..=7 => "magic",
        8..=9 => "major",
        10..=11 => "minor",
        12 => "usize_size",
        13..=20 => "type_hash",
        _ => "align_hash",
    }
}

pub fn run(cfg: &Cfg, log: &mut Log) {
    let nvals = if cfg.thorough { 4 } else { 1 } * cfg.scale;
    let mut all_minor = 0;
    for rc in my_roots(cfg) {
        log.count("roots", 1);
        if model::layout::has_odd_unit(&rc.ty) {
            continue;
        }
        for v in values(&rc, cfg.seed, nvals) {
            log.begin(rc.name);
            let Ok(bytes) = ser_plain(&rc, &v) else {
                log.violation("C10", "C10/serialize", rc.name, Some(&v), "serialize failed".into(), vec![]);
                continue;
            };
            log.distinct(model::rng::fnv(rc.name) ^ v.shape_hash());
            // every single-bit flip of the 29 fixed bytes
            for i in 0..29 {
                for bit in 0..8 {
                    let mut m = bytes.clone();
                    m[i] ^= 1 << bit;
                    judge(log, &rc, &v, &bytes, &m, &format!("bit {} of header byte {} flipped", bit, i), field_of(i));
                    log.count("bit_flips", 1);
                }
            }
            // byte-reversed cookie
            let mut m = bytes.clone();
            m[0..8].reverse();
            judge(log, &rc, &v, &bytes, &m, "byte-reversed magic cookie", "magic_reversed");
            // minor versions
            let mut minors: Vec<u16> = vec![0, 1, 2, 3, 255, 256, 257, 0x7fff, 0x8000, 65534, 65535];
            if cfg.thorough && all_minor < 2 {
                minors = (0..=65535).collect();
                all_minor += 1;
                log.count("roots_with_all_65536_minor_versions", 1);
            }
            for mv in minors {
                let mut m = bytes.clone();
                m[10..12].copy_from_slice(&mv.to_le_bytes());
                judge(log, &rc, &v, &bytes, &m, &format!("minor version {}", mv), "minor_value");
                log.count("minor_versions", 1);
            }
            // major values
            for mj in [0u16, 2, 256, 65535] {
                let mut m = bytes.clone();
                m[8..10].copy_from_slice(&mj.to_le_bytes());
                judge(log, &rc, &v, &bytes, &m, &format!("major version {}", mj), "major_value");
            }
            log.sample(J::obj(vec![("type", J::s(rc.name)), ("value", J::s(show_val(&v))), ("mutations", J::s("232 bit flips + reversed cookie + minor/major values"))]));
        }
    }
}
