//! C06 – conformance to format 1.1 (reference encoder, hash recipe) and
//! stability against the golden corpus.
use crate::common::*;
use model::json::J;

pub fn run(cfg: &Cfg, log: &mut Log) {
    let nvals = if cfg.thorough { 200 } else { 25 } * cfg.scale;
    for rc in my_roots(cfg) {
        log.count("roots", 1);
        let class = ty_class(&rc.ty);
        // hash recipe
        let (th, ah) = rc.root.hashes();
        let (mth, mah) = (model::hash::type_hash(&rc.ty), model::hash::align_hash(&rc.ty));
        log.count("hash_words_checked", 2);
        if th != mth {
            log.violation("C06", &format!("C06/type-hash/{}", class), rc.name, None,
                format!("type hash {:#018x} differs from the published recipe {:#018x}", th, mth), vec![]);
        }
        if ah != mah {
            log.violation("C06", &format!("C06/align-hash/{}", class), rc.name, None,
                format!("align hash {:#018x} differs from the published recipe {:#018x}", ah, mah), vec![]);
        }
        for v in values(&rc, cfg.seed, nvals).into_iter().chain(big_values(&rc)) {
            log.begin(rc.name);
            log.count("evaluations", 1);
            let bytes = match ser_plain(&rc, &v) {
                Ok(b) => b,
                Err(e) => {
                    log.violation("C06", &format!("C06/serialize/{}", class), rc.name, Some(&v), format!("serialize failed: {}", e), vec![]);
                    continue;
                }
            };
            let enc = model::enc::encode(&rc.ty, &v, rc.root.type_name());
            if bytes.len() > enc.header_len {
                log.distinct(model::rng::fnv(rc.name) ^ v.shape_hash());
            }
            log.count("bytes_compared", enc.care.iter().filter(|c| **c).count() as u64);
            log.count("dont_care_bytes", enc.care.iter().filter(|c| !**c).count() as u64);
            if let Some(at) = enc.first_diff(&bytes) {
                let what = if at < enc.header_len { "header" } else { "payload" };
                log.violation("C06", &format!("C06/bytes-{}/{}", what, class), rc.name, Some(&v),
                    format!("emitted stream ({} bytes) differs from the reference encoding ({} bytes) at offset {}: got {:02x?}, expected {:02x?}",
                        bytes.len(), enc.bytes.len(), at,
                        &bytes[at.min(bytes.len())..(at + 8).min(bytes.len())],
                        &enc.bytes[at.min(enc.bytes.len())..(at + 8).min(enc.bytes.len())]), vec![]);
            } else {
                log.count("streams_conform", 1);
            }
            log.sample(J::obj(vec![("type", J::s(rc.name)), ("value", J::s(show_val(&v))), ("stream_len", J::u(bytes.len() as u64)),
                ("blocks", J::u(enc.blocks.len() as u64)), ("tags", J::u(enc.tags.len() as u64))]));
        }
    }
}

fn hex(b: &[u8]) -> String {
    let mut s = String::with_capacity(b.len() * 2);
    for x in b {
        s.push_str(&format!("{:02x}", x));
    }
    s
}

fn unhex(s: &str) -> Option<Vec<u8>> {
    if s.len() % 2 != 0 {
        return None;
    }
    (0..s.len() / 2).map(|i| u8::from_str_radix(&s[2 * i..2 * i + 2], 16).ok()).collect()
}

/// Write the golden corpus (run once, against the pinned build).
pub fn write_corpus(cfg: &Cfg, path: &str) {
    use std::io::Write;
    let mut f = std::fs::File::create(path).expect("corpus file");
    let mut n = 0;
    let mut skipped = vec![];
    for rc in my_roots(cfg) {
        for v in values(&rc, 0xC0_2026, 4) {
            match ser_plain(&rc, &v) {
                Ok(bytes) => {
                    writeln!(f, "{}\t{}\t{}", rc.name, model::gen::val_to_text(&v), hex(&bytes)).unwrap();
                    n += 1;
                }
                Err(e) => skipped.push(format!("{}: {}", rc.name, e)),
            }
        }
    }
    eprintln!("corpus: {} streams written, {} skipped", n, skipped.len());
    for s in skipped.iter().take(40) {
        eprintln!("  skipped {}", s);
    }
}

/// Every corpus stream must load with both deserialisers of the current
/// build to the stored value, be reproduced byte for byte by the current
/// writer, and carry the hash words of the published recipe.
pub fn check_corpus(cfg: &Cfg, log: &mut Log, path: &str) {
    use rt::*;
    let text = match std::fs::read_to_string(path) {
        Ok(t) => t,
        Err(e) => {
            log.inconclusive(format!("corpus {} unreadable: {}", path, e));
            return;
        }
    };
    let roots = my_roots(cfg);
    let by_name: std::collections::HashMap<&str, &RootCtx> = roots.iter().map(|r| (r.name, r)).collect();
    for line in text.lines() {
        let mut it = line.split('\t');
        let (Some(name), Some(vt), Some(hx)) = (it.next(), it.next(), it.next()) else {
            log.inconclusive("malformed corpus line");
            continue;
        };
        let Some(rc) = by_name.get(name) else {
            log.count("corpus_not_in_shard", 1);
            continue;
        };
        let (Some(v), Some(bytes)) = (model::gen::val_from_text(vt), unhex(hx)) else {
            log.inconclusive("malformed corpus entry");
            continue;
        };
        log.begin(rc.name);
        log.count("corpus_streams", 1);
        log.count("evaluations", 1);
        log.distinct(model::rng::fnv(rc.name) ^ model::rng::fnv(vt) ^ 0xC0);
        let class = ty_class(&rc.ty);
        let enc = model::enc::encode(&rc.ty, &v, rc.root.type_name());
        // stored hash words = recipe
        if let Ok(h) = model::dec::header(&bytes) {
            if h.type_hash != enc.type_hash || h.align_hash != enc.align_hash {
                log.violation("C06", &format!("C06/corpus-recipe/{}", class), rc.name, Some(&v),
                    format!("corpus header carries hashes {:#x}/{:#x}, recipe gives {:#x}/{:#x}", h.type_hash, h.align_hash, enc.type_hash, enc.align_hash), vec![]);
            }
        }
        // (a) full-copy
        let mut rd = IoReader::new(&bytes);
        match rc.root.full(&mut rd) {
            Ok(back) if back == v => log.count("corpus_full_ok", 1),
            Ok(back) => log.violation("C06", &format!("C06/corpus-full-value/{}", class), rc.name, Some(&v),
                format!("file written by the pinned build now reads as {}", show_val(&back)), vec![]),
            Err(f) => log.violation("C06", &format!("C06/corpus-full/{}", class), rc.name, Some(&v),
                format!("file written by the pinned build no longer loads (full-copy): {}", fail_str(&f)), vec![]),
        }
        // (b) ε-copy
        if !model::layout::has_odd_unit(&rc.ty) {
            let buf = rt::membuf::PlacedBuf::aligned(&bytes);
            let mut w = Walker::default();
            match rc.root.eps(buf.bytes(), &mut w) {
                Ok((back, _)) if back == v => log.count("corpus_eps_ok", 1),
                Ok((back, _)) => log.violation("C06", &format!("C06/corpus-eps-value/{}", class), rc.name, Some(&v),
                    format!("file written by the pinned build now ε-reads as {}", show_val(&back)), vec![]),
                Err(f) => log.violation("C06", &format!("C06/corpus-eps/{}", class), rc.name, Some(&v),
                    format!("file written by the pinned build no longer loads (ε-copy): {}", fail_str(&f)), vec![]),
            }
        }
        // (c) the current writer reproduces the stored bytes
        match ser_plain(rc, &v) {
            Ok(now) => {
                let same = now.len() == bytes.len() && (0..now.len()).all(|i| !enc.care.get(i).copied().unwrap_or(true) || now[i] == bytes[i]);
                if same {
                    log.count("corpus_rewrite_ok", 1);
                } else {
                    let at = (0..now.len().min(bytes.len())).find(|&i| enc.care.get(i).copied().unwrap_or(true) && now[i] != bytes[i]).unwrap_or(now.len().min(bytes.len()));
                    log.violation("C06", &format!("C06/corpus-rewrite/{}", class), rc.name, Some(&v),
                        format!("current writer emits {} bytes, pinned build emitted {}; first difference at offset {}", now.len(), bytes.len(), at), vec![]);
                }
            }
            Err(e) => log.violation("C06", &format!("C06/corpus-rewrite/{}", class), rc.name, Some(&v), format!("serialize failed: {}", e), vec![]),
        }
    }
}
