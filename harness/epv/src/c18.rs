//! C18 – the recorded schema describes exactly the bytes written.
use crate::common::*;
use model::json::J;
use rt::rec::Ev;
use rt::*;

pub fn run(cfg: &Cfg, log: &mut Log) {
    let nvals = if cfg.thorough { 200 } else { 25 } * cfg.scale;
    for rc in my_roots(cfg) {
        log.count("roots", 1);
        let class = ty_class(&rc.ty);
        for v in values(&rc, cfg.seed, nvals) {
            log.begin(rc.name);
            log.count("evaluations", 1);
            let plain = match ser_plain(&rc, &v) {
                Ok(b) => b,
                Err(e) => {
                    log.violation("C18", &format!("C18/serialize/{}", class), rc.name, Some(&v), format!("serialize failed: {}", e), vec![]);
                    continue;
                }
            };
            let mut sink = IoSink::new();
            let out = match rc.root.ser_schema(&v, &mut sink) {
                Ok(o) => o,
                Err(f) => {
                    log.violation("C18", &format!("C18/schema-serialize/{}", class), rc.name, Some(&v), format!("serialize_with_schema failed: {}", fail_str(&f)), vec![]);
                    continue;
                }
            };
            let enc = model::enc::encode(&rc.ty, &v, rc.root.type_name());
            let same = sink.data.len() == plain.len() && (0..plain.len()).all(|i| !enc.care.get(i).copied().unwrap_or(true) || plain[i] == sink.data[i]);
            if !same {
                log.violation("C18", &format!("C18/bytes/{}", class), rc.name, Some(&v),
                    format!("serialize_with_schema wrote {} bytes, serialize wrote {} (or contents differ)", sink.data.len(), plain.len()), vec![]);
            }
            let n = plain.len();
            let rows = &out.rows;
            log.count("rows_checked", rows.len() as u64);
            if rows.len() > 12 {
                log.distinct(model::rng::fnv(rc.name) ^ v.shape_hash());
            }
            let mut bad: Vec<String> = vec![];
            // every row inside the stream
            for r in rows {
                if r.offset + r.size > n {
                    bad.push(format!("row {} [{}..{}) outside the {}-byte stream", r.field, r.offset, r.offset + r.size, n));
                }
            }
            // Rebuild the tree from pre-order, names and extents: every row must
            // start exactly where its previous sibling ended (or where its
            // parent starts), lie inside its parent, and the children of a
            // composite must end where the composite ends.
            if bad.is_empty() {
                struct Open {
                    name: String,
                    end: usize,
                    cursor: usize,
                    kids: usize,
                }
                let mut stack: Vec<Open> = vec![];
                let mut top_cursor = 0usize;
                let close = |e: Open, bad: &mut Vec<String>| {
                    if e.kids > 0 && e.cursor != e.end {
                        bad.push(format!("children of {} cover up to {} but the row ends at {}", e.name, e.cursor, e.end));
                    }
                };
                for (i, r) in rows.iter().enumerate() {
                    let rend = r.offset + r.size;
                    loop {
                        let Some(top) = stack.last() else { break };
                        let is_parent = if r.field == "PADDING" {
                            r.offset == top.cursor && rend <= top.end && top.cursor < top.end
                        } else {
                            r.field.strip_prefix(top.name.as_str()).map_or(false, |rest| rest.starts_with('.') && !rest[1..].contains('.'))
                        };
                        if is_parent {
                            break;
                        }
                        let e = stack.pop().unwrap();
                        close(e, &mut bad);
                    }
                    let (cursor, pend) = match stack.last() {
                        Some(p) => (p.cursor, p.end),
                        None => (top_cursor, n),
                    };
                    if r.offset != cursor {
                        bad.push(format!("row {} ({}) starts at {} but the previous sibling ended at {} (gap or overlap)", i, r.field, r.offset, cursor));
                        break;
                    }
                    if rend > pend {
                        bad.push(format!("row {} ({}) [{}..{}) exceeds its parent which ends at {}", i, r.field, r.offset, rend, pend));
                        break;
                    }
                    match stack.last_mut() {
                        Some(p) => {
                            p.cursor = rend;
                            p.kids += 1;
                        }
                        None => top_cursor = rend,
                    }
                    if r.field == "PADDING" {
                        log.count("padding_rows", 1);
                        if plain[r.offset..rend].iter().any(|b| *b != 0) {
                            bad.push(format!("PADDING row at {} covers non-zero bytes", r.offset));
                        }
                    } else {
                        stack.push(Open { name: r.field.clone(), end: rend, cursor: r.offset, kids: 0 });
                    }
                    if r.align > 1 && r.align.is_power_of_two() && r.offset % r.align != 0 {
                        bad.push(format!("row {} with align {} starts at {}", r.field, r.align, r.offset));
                    }
                }
                while let Some(e) = stack.pop() {
                    close(e, &mut bad);
                }
                if bad.is_empty() && top_cursor != n {
                    bad.push(format!("top-level rows cover [0..{}) of a {}-byte stream", top_cursor, n));
                }
            }
            // .zero rows = recorded write_bytes events of the plain path
            let mut evs = vec![];
            let mut s3 = IoSink::new();
            if rc.root.ser_rec(&v, &mut s3, &mut evs).is_ok() {
                let mut wb: Vec<(usize, usize)> = evs.iter().filter_map(|e| match e { Ev::WriteBytes { off, len, .. } => Some((*off, *len)), _ => None }).collect();
                let mut zr: Vec<(usize, usize)> = rows.iter().filter(|r| r.field.ends_with(".zero") || r.field == "zero").map(|r| (r.offset, r.size)).collect();
                wb.sort();
                zr.sort();
                log.count("zero_rows", zr.len() as u64);
                if wb != zr {
                    bad.push(format!("{} `.zero` rows {:?} but the plain serialisation performed {} write_bytes {:?}", zr.len(), zr.iter().take(4).collect::<Vec<_>>(), wb.len(), wb.iter().take(4).collect::<Vec<_>>()));
                }
            }
            match &out.csv {
                Ok(s) if s.lines().count() == rows.len() + 1 => log.count("csv_ok", 1),
                Ok(s) => bad.push(format!("to_csv has {} lines for {} rows", s.lines().count(), rows.len())),
                Err(p) => bad.push(format!("to_csv panicked: {}", p)),
            }
            match &out.debug {
                Ok(s) if s.lines().count() == rows.len() + 1 => log.count("debug_ok", 1),
                Ok(s) => bad.push(format!("debug() has {} lines for {} rows", s.lines().count(), rows.len())),
                Err(p) => bad.push(format!("debug() panicked: {}", p)),
            }
            if !bad.is_empty() {
                log.violation("C18", &format!("C18/rows/{}", class), rc.name, Some(&v), bad.join(" | "), vec![]);
            } else {
                log.count("schemas_ok", 1);
            }
            log.sample(J::obj(vec![("type", J::s(rc.name)), ("value", J::s(show_val(&v))), ("rows", J::u(rows.len() as u64)),
                ("first_rows", J::A(rows.iter().skip(7).take(5).map(|r| J::s(format!("{}@{}+{} a{}", r.field, r.offset, r.size, r.align))).collect()))]));
        }
    }
}

