//! C07 – padding to the alignment unit; exact byte counts.
use crate::common::*;
use model::json::J;
use rt::rec::Ev;
use rt::*;

/// The padding formula over all (offset, unit) pairs.
fn formula(log: &mut Log) {
    let mut offsets: Vec<usize> = (0..4096).collect();
    offsets.extend([usize::MAX, usize::MAX - 1, usize::MAX - 63, usize::MAX / 2, usize::MAX / 2 + 1, 1 << 32, (1 << 32) - 1, (1 << 63) + 5]);
    for sh in 0..=12 {
        let u = 1usize << sh;
        for &v in &offsets {
            let got = rt::outcome::guarded(|| epserde::pad_align_to(v, u));
            let want = (u - v % u) % u;
            log.count("formula_pairs", 1);
            match got {
                Ok(g) if g == want => {}
                other => {
                    log.violation("C07", "C07/formula", "pad_align_to", None,
                        format!("pad_align_to({}, {}) = {:?}, the smallest padding is {}", v, u, other, want), vec![]);
                    return;
                }
            }
        }
    }
}

pub fn run(cfg: &Cfg, log: &mut Log) {
    if cfg.shard == 0 {
        formula(log);
    }
    let nvals = if cfg.thorough { 300 } else { 30 } * cfg.scale;
    for rc in my_roots(cfg) {
        log.count("roots", 1);
        let class = ty_class(&rc.ty);
        let odd = model::layout::has_odd_unit(&rc.ty);
        if odd {
            log.count("roots_with_non_power_of_two_unit", 1);
        }
        let mut vals = values(&rc, cfg.seed, nvals);
        if rc.name.starts_with("d::Pre<") {
            // sweep the length of the prefix so that the block after it starts
            // at every residue modulo its unit
            let base = vals[0].clone();
            for l in 0..64 {
                if let model::Val::Struct(f) = &base {
                    vals.push(model::Val::Struct(vec![model::Val::Str("p".repeat(l)), f[1].clone()]));
                    log.count("prefix_sweep_values", 1);
                }
            }
        }
        vals.extend(big_values(&rc));
        for v in vals {
            log.begin(rc.name);
            log.count("evaluations", 1);
            let mut evs = vec![];
            let mut sink = IoSink::new();
            let ret = match rc.root.ser_rec(&v, &mut sink, &mut evs) {
                Ok(n) => n,
                Err(f) => {
                    log.violation("C07", &format!("C07/serialize/{}", class), rc.name, Some(&v), format!("serialize failed: {}", fail_str(&f)), vec![]);
                    continue;
                }
            };
            let bytes = sink.data;
            // count returned by the plain entry point
            let mut s2 = IoSink::new();
            match rc.root.ser(&v, &mut s2) {
                Ok(n) => {
                    if n != s2.data.len() || n != bytes.len() || ret != bytes.len() {
                        log.violation("C07", &format!("C07/count/{}", class), rc.name, Some(&v),
                            format!("serialize returned {} ({} through the recorder), the writer received {} bytes", n, ret, s2.data.len()), vec![]);
                    } else {
                        log.count("counts_exact", 1);
                    }
                }
                Err(f) => log.violation("C07", &format!("C07/serialize/{}", class), rc.name, Some(&v), format!("serialize failed: {}", fail_str(&f)), vec![]),
            }
            if odd {
                // only the finding itself is reported for these types
                for e in &evs {
                    if let Ev::Align { unit_raw, ty, .. } = e {
                        log.count("align_events", 1);
                        if *unit_raw > 1 && !unit_raw.is_power_of_two() {
                            log.count("align_events_non_power_of_two_unit", 1);
                            log.violation("C07", "C07/unit-not-power-of-two", rc.name, Some(&v),
                                format!("align::<{}>: the alignment unit is {} (size_of of a range over a {}-byte type), which is not a power of two; padding and the address check of the ε-copy reader are then ill-defined", ty, unit_raw, unit_raw), vec![]);
                        }
                    }
                }
                continue;
            }
            let enc = model::enc::encode(&rc.ty, &v, rc.root.type_name());
            // online trace check over the align / write_bytes events
            let mut blocks = enc.blocks.iter();
            let mut last_align: Option<(usize, usize, usize, usize, &'static str)> = None;
            for e in &evs {
                match e {
                    Ev::Align { before, after, unit_raw, align_of, ty } => {
                        log.count("align_events", 1);
                        let unit = (*unit_raw).max(1);
                        let mut bad = vec![];
                        if !unit.is_power_of_two() {
                            bad.push(format!("unit {} is not a power of two", unit));
                        } else {
                            if unit < *align_of {
                                bad.push(format!("unit {} smaller than the native alignment {}", unit, align_of));
                            }
                            if after % unit != 0 {
                                bad.push(format!("block starts at {} which is not a multiple of {}", after, unit));
                            }
                            if after - before >= unit {
                                bad.push(format!("gap {} is not minimal for unit {}", after - before, unit));
                            }
                            log.set("residues", format!("{}:{}", unit, before % unit));
                        }
                        if bytes[*before..*after].iter().any(|b| *b != 0) {
                            bad.push("gap contains non-zero bytes".into());
                        }
                        if !bad.is_empty() {
                            log.violation("C07", &format!("C07/align/{}", class), rc.name, Some(&v),
                                format!("align::<{}> at {}→{}: {}", ty, before, after, bad.join("; ")), vec![]);
                        }
                        last_align = Some((*before, *after, *unit_raw, *align_of, ty));
                    }
                    Ev::WriteBytes { off, len, unit_raw, ty, .. } => {
                        log.count("write_bytes_events", 1);
                        if *off < enc.header_len {
                            // the type name in the header is itself a byte block
                            if (*off, *len) != (37, enc.header_len - 37) {
                                log.violation("C07", &format!("C07/header-block/{}", class), rc.name, Some(&v),
                                    format!("header block written at ({}, {}), expected (37, {})", off, len, enc.header_len - 37), vec![]);
                            }
                            continue;
                        }
                        let Some(b) = blocks.next() else {
                            log.violation("C07", &format!("C07/extra-block/{}", class), rc.name, Some(&v),
                                format!("write_bytes::<{}> at {} has no counterpart in the format", ty, off), vec![]);
                            continue;
                        };
                        let mut bad = vec![];
                        if (*off, *len) != (b.off, b.len) {
                            bad.push(format!("written at ({}, {}), format places it at ({}, {})", off, len, b.off, b.len));
                        }
                        if *unit_raw != b.unit_raw {
                            bad.push(format!("unit {} differs from max(native alignment, units of fields) = {}", unit_raw, b.unit_raw));
                        }
                        match last_align {
                            Some((_, after, u, _, _)) if after == *off && u == *unit_raw => {}
                            _ => bad.push("not immediately preceded by the padding for its own unit".into()),
                        }
                        if !bad.is_empty() {
                            log.violation("C07", &format!("C07/block/{}", class), rc.name, Some(&v),
                                format!("block {} ({}): {}", b.path, ty, bad.join("; ")), vec![]);
                        }
                    }
                    _ => {}
                }
            }
            if blocks.next().is_some() {
                log.violation("C07", &format!("C07/missing-block/{}", class), rc.name, Some(&v),
                    "fewer write_bytes events than zero-copy blocks in the format".into(), vec![]);
            }
            if !enc.blocks.is_empty() {
                log.distinct(model::rng::fnv(rc.name) ^ v.shape_hash());
            }
            // both readers consume exactly the stream
            let mut padded = bytes.clone();
            padded.extend(std::iter::repeat(0xEE).take(64));
            let mut rd = IoReader::new(&padded);
            match rc.root.full(&mut rd) {
                Ok(_) => {
                    if rd.pos != bytes.len() {
                        log.violation("C07", &format!("C07/full-consumed/{}", class), rc.name, Some(&v),
                            format!("deserialize_full consumed {} bytes of a {}-byte stream", rd.pos, bytes.len()), vec![]);
                    } else {
                        log.count("full_consumed_exact", 1);
                    }
                }
                Err(f) => log.violation("C07", &format!("C07/full/{}", class), rc.name, Some(&v), format!("deserialize_full failed: {}", fail_str(&f)), vec![]),
            }
            if !odd {
                let buf = rt::membuf::PlacedBuf::aligned(&padded);
                match rc.root.eps_pos(buf.bytes()) {
                    Ok(p) if p == bytes.len() => log.count("eps_consumed_exact", 1),
                    Ok(p) => log.violation("C07", &format!("C07/eps-consumed/{}", class), rc.name, Some(&v),
                        format!("ε-copy reader stops at {} of a {}-byte stream", p, bytes.len()), vec![]),
                    Err(f) => log.violation("C07", &format!("C07/eps/{}", class), rc.name, Some(&v), format!("ε-copy failed: {}", fail_str(&f)), vec![]),
                }
            }
            log.sample(J::obj(vec![("type", J::s(rc.name)), ("value", J::s(show_val(&v))), ("stream_len", J::u(bytes.len() as u64)),
                ("blocks", J::A(enc.blocks.iter().map(|b| J::s(format!("{}..{} pad@{} unit{}", b.off, b.off + b.len, b.pad_from, b.unit))).collect()))]));
        }
    }
}
