//! C12 – misplaced buffers are refused with AlignmentError, never misread.
use crate::common::*;
use model::json::J;
use rt::*;

pub fn run(cfg: &Cfg, log: &mut Log) {
    let nvals = if cfg.thorough { 16 } else { 4 } * cfg.scale;
    for rc in my_roots(cfg) {
        log.count("roots", 1);
        if model::layout::has_odd_unit(&rc.ty) {
            log.count("roots_skipped_non_power_of_two_unit", 1);
            continue;
        }
        let class = ty_class(&rc.ty);
        for v in values(&rc, cfg.seed, nvals) {
            log.begin(rc.name);
            let Ok(bytes) = ser_plain(&rc, &v) else {
                log.violation("C12", "C12/serialize", rc.name, Some(&v), "serialize failed".into(), vec![]);
                continue;
            };
            let enc = model::enc::encode(&rc.ty, &v, rc.root.type_name());
            let units: Vec<(usize, usize)> = enc.blocks.iter().filter(|b| b.unit_raw > 1).map(|b| (b.off, b.unit)).collect();
            if !units.is_empty() {
                log.distinct(model::rng::fnv(rc.name) ^ v.shape_hash());
            }
            let mut n_ok = 0;
            for r in 0..128usize {
                log.count("evaluations", 1);
                let buf = rt::membuf::PlacedBuf::new(&bytes, 128, r);
                let base = buf.addr();
                let want_ok = units.iter().all(|(off, u)| (base + off) % u == 0);
                let mut w = Walker::default();
                let got = rc.root.eps(buf.bytes(), &mut w);
                match (&got, want_ok) {
                    (Ok((val, _)), true) => {
                        n_ok += 1;
                        log.count("accepted_as_required", 1);
                        if *val != v {
                            log.violation("C12", &format!("C12/value/{}", class), rc.name, Some(&v),
                                format!("at base residue {} the value reads as {}", r, show_val(val)), vec![]);
                        }
                        for p in &w.parts {
                            if p.ptr % p.ealign.max(1) != 0 {
                                log.violation("C12", &format!("C12/misaligned-ref/{}", class), rc.name, Some(&v),
                                    format!("at base residue {} a reference {:#x} is misaligned for its type (align {})", r, p.ptr, p.ealign), vec![]);
                            }
                        }
                    }
                    (Err(Fail::Err(DeErr::Alignment)), false) => log.count("refused_with_alignment_error", 1),
                    (other, _) => {
                        let g = match other { Ok((val, _)) => format!("Ok({})", show_val(val)), Err(f) => fail_str(f) };
                        // is any produced reference misaligned?
                        let mis = w.parts.iter().any(|p| p.ptr % p.ealign.max(1) != 0);
                        log.violation("C12", &format!("C12/{}/{}", if want_ok { "refused-aligned" } else { "accepted-misaligned" }, class), rc.name, Some(&v),
                            format!("base residue {} (blocks at offsets/units {:?}): expected {}, got {}{}", r, units,
                                if want_ok { "Ok" } else { "Err(AlignmentError)" }, g, if mis { " with a misaligned reference" } else { "" }), vec![]);
                    }
                }
            }
            if units.is_empty() && n_ok != 128 {
                log.violation("C12", &format!("C12/byte-aligned-refused/{}", class), rc.name, Some(&v),
                    format!("stream with only byte-aligned data accepted at {} of 128 placements", n_ok), vec![]);
            }
            log.set("max_unit", format!("{}", units.iter().map(|u| u.1).max().unwrap_or(1)));
            log.sample(J::obj(vec![("type", J::s(rc.name)), ("value", J::s(show_val(&v))), ("blocks_off_unit", J::s(format!("{:?}", units))), ("placements_ok", J::u(n_ok as u64))]));
        }
    }
}
