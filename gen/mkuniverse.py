#!/usr/bin/env python3
"""Write the generated crates of the harness.

  ud      definitions of universe A + glue
  u0..uN  root tables (universe A split in N shards) + ε-copy type assertions
  ub      universe B (fresh per VERIF_SEED; thorough tier)
  um      C04 mutant universe (definitions + HasTy only, hash roots)

Files are rewritten only when their content changes, so cargo does not
rebuild an unchanged universe.
"""

import os
import sys

sys.path.insert(0, os.path.dirname(os.path.abspath(__file__)))
import emit
import universe_a
import universe_m
import universe_b

HARNESS = os.path.join(os.path.dirname(os.path.dirname(os.path.abspath(__file__))), 'harness')
NSHARDS = 8


def write_if_changed(path, content):
    os.makedirs(os.path.dirname(path), exist_ok=True)
    try:
        if open(path).read() == content:
            return False
    except FileNotFoundError:
        pass
    with open(path, 'w') as f:
        f.write(content)
    return True


def crate_toml(name, deps):
    lines = ['[package]', 'name = "%s"' % name, 'version = "0.1.0"', 'edition = "2021"', '',
             '[features]', 'default = ["mmap"]',
             'mmap = [%s]' % ', '.join('"%s/mmap"' % d for d in deps if d != 'model'), '',
             '[dependencies]', 'epserde = { workspace = true }']
    for d in deps:
        if d in ('model', 'rt'):
            lines.append('%s = { path = "../%s" }' % (d, d))
        else:
            lines.append('%s = { path = "../%s" }' % (d, d))
    lines += ['', '[lints.rust]', 'unexpected_cfgs = { level = "allow" }', '']
    return '\n'.join(lines)


def main():
    limit = int(os.environ.get('VERIF_ROOT_LIMIT', '0'))
    defs = universe_a.DEFS
    roots = universe_a.roots()
    if limit:
        roots = roots[::max(1, len(roots) // limit)][:limit]
    # ud
    write_if_changed(os.path.join(HARNESS, 'ud', 'Cargo.toml'), crate_toml('ud', ['model', 'rt']))
    write_if_changed(os.path.join(HARNESS, 'ud', 'src', 'lib.rs'), emit.PRELUDE + '\n' + emit.emit_modules(defs) + '\n')
    # shards
    shards = [[] for _ in range(NSHARDS)]
    for i, t in enumerate(roots):
        shards[i % NSHARDS].append(t)
    for k, rs in enumerate(shards):
        name = 'u%d' % k
        src = emit.PRELUDE + 'use ud::*;\n\n' + emit.emit_roots(rs) + '\n\npub mod asserts {\n    use super::*;\n' \
            + emit.emit_eps_asserts(rs) + '\n}\n'
        write_if_changed(os.path.join(HARNESS, name, 'Cargo.toml'), crate_toml(name, ['model', 'rt', 'ud']))
        write_if_changed(os.path.join(HARNESS, name, 'src', 'lib.rs'), src)
    # seq roots (C16 / C13)
    z, d = universe_a.seq_elems()
    lines = []
    names = []
    for i, t in enumerate(z):
        lines.append('rt::seq_root!(zero, S%d, %s, "%s");' % (i, t.rust(), t.rust()))
        names.append('&S%d' % i)
    for i, t in enumerate(d):
        lines.append('rt::seq_root!(deep, SD%d, %s, "%s");' % (i, t.rust(), t.rust()))
        names.append('&SD%d' % i)
    lines.append('pub static SEQ_ROOTS: &[&dyn rt::SeqRoot] = &[%s];' % ', '.join(names))
    write_if_changed(os.path.join(HARNESS, 'us', 'Cargo.toml'), crate_toml('us', ['model', 'rt', 'ud']))
    write_if_changed(os.path.join(HARNESS, 'us', 'src', 'lib.rs'), emit.PRELUDE + 'use ud::*;\n\n' + '\n'.join(lines) + '\n')
    # mutant universe (C04)
    mdefs, mpairs = universe_m.build()
    useen = {}
    for (kind, same, t, u) in mpairs:
        useen.setdefault(u.rust(), u)
    ulist = list(useen.values())
    meta = ', '.join('("%s", "%s", "%s", %s)' % (t.rust(), u.rust(), kind, 'true' if same else 'false') for (kind, same, t, u) in mpairs)
    aroots = set(t.rust() for t in roots)
    tseen = {}
    for (kind, same, t, u) in mpairs:
        if t.rust() not in aroots:
            tseen.setdefault(t.rust(), t)
    tlist = list(tseen.values())
    src = emit.PRELUDE + 'use ud::*;\n\n' + emit.emit_modules(mdefs, glue='hasty') + '\n\n' + emit.emit_hash_roots(ulist) \
        + '\n\n' + emit.emit_roots(tlist, prefix='MT', table='MT_ROOTS') \
        + '\n\n/// (T, U, mutation kind, same serialised structure expected)\npub static PAIRS: &[(&str, &str, &str, bool)] = &[%s];\n' % meta
    write_if_changed(os.path.join(HARNESS, 'um', 'Cargo.toml'), crate_toml('um', ['model', 'rt', 'ud']))
    write_if_changed(os.path.join(HARNESS, 'um', 'src', 'lib.rs'), src)
    print('universe M: %d mutant definitions, %d designated pairs, %d target types' % (len(mdefs), len(mpairs), len(ulist)))
    # universe B (fresh per seed; C05)
    seed = int(os.environ.get('VERIF_SEED', '1'))
    nb = 80 if os.environ.get('VERIF_TIER') == 'thorough' else 28
    bdefs, broots = universe_b.build(seed, nb)
    src = emit.PRELUDE + 'use ud::*;\n\n' + emit.emit_modules(bdefs) + '\n\n' + emit.emit_roots(broots, prefix='B', table='ROOTS') \
        + '\n\npub mod asserts {\n    use super::*;\n' + emit.emit_eps_asserts(broots) + '\n}\n'
    write_if_changed(os.path.join(HARNESS, 'ub', 'Cargo.toml'), crate_toml('ub', ['model', 'rt', 'ud']))
    write_if_changed(os.path.join(HARNESS, 'ub', 'src', 'lib.rs'), src)
    print('universe B (seed %d): %d definitions, %d roots' % (seed, len(bdefs), len(broots)))
    print('universe A: %d definitions, %d roots in %d shards' % (len(defs), len(roots), NSHARDS))


if __name__ == '__main__':
    main()
