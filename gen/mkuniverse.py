#!/usr/bin/env python3
"""Write the generated crates of the harness.

  ud      definitions of universe A + glue
  u0..uN  root tables (universe A split in N shards) + ε-copy type assertions
  ub      universe B (fresh per VERIF_SEED; thorough tier)
  um      C04 mutant universe (definitions + HasTy only, hash roots)

Files are rewritten only when their content changes, so cargo does not
rebuild an unchanged universe.
"""

import os
import sys

sys.path.insert(0, os.path.dirname(os.path.abspath(__file__)))
import emit
import universe_a

HARNESS = os.path.join(os.path.dirname(os.path.dirname(os.path.abspath(__file__))), 'harness')
NSHARDS = 8


def write_if_changed(path, content):
    os.makedirs(os.path.dirname(path), exist_ok=True)
    try:
        if open(path).read() == content:
            return False
    except FileNotFoundError:
        pass
    with open(path, 'w') as f:
        f.write(content)
    return True


def crate_toml(name, deps):
    lines = ['[package]', 'name = "%s"' % name, 'version = "0.1.0"', 'edition = "2021"', '',
             '[features]', 'default = ["mmap"]',
             'mmap = [%s]' % ', '.join('"%s/mmap"' % d for d in deps if d != 'model'), '',
             '[dependencies]', 'epserde = { workspace = true }']
    for d in deps:
        if d in ('model', 'rt'):
            lines.append('%s = { path = "../%s" }' % (d, d))
        else:
            lines.append('%s = { path = "../%s" }' % (d, d))
    lines += ['', '[lints.rust]', 'unexpected_cfgs = { level = "allow" }', '']
    return '\n'.join(lines)


def main():
    limit = int(os.environ.get('VERIF_ROOT_LIMIT', '0'))
    defs = universe_a.DEFS
    roots = universe_a.roots()
    if limit:
        roots = roots[::max(1, len(roots) // limit)][:limit]
    # ud
    write_if_changed(os.path.join(HARNESS, 'ud', 'Cargo.toml'), crate_toml('ud', ['model', 'rt']))
    write_if_changed(os.path.join(HARNESS, 'ud', 'src', 'lib.rs'), emit.PRELUDE + '\n' + emit.emit_modules(defs) + '\n')
    # shards
    shards = [[] for _ in range(NSHARDS)]
    for i, t in enumerate(roots):
        shards[i % NSHARDS].append(t)
    for k, rs in enumerate(shards):
        name = 'u%d' % k
        src = emit.PRELUDE + 'use ud::*;\n\n' + emit.emit_roots(rs) + '\n\npub mod asserts {\n    use super::*;\n' \
            + emit.emit_eps_asserts(rs) + '\n}\n'
        write_if_changed(os.path.join(HARNESS, name, 'Cargo.toml'), crate_toml(name, ['model', 'rt', 'ud']))
        write_if_changed(os.path.join(HARNESS, name, 'src', 'lib.rs'), src)
    print('universe A: %d definitions, %d roots in %d shards' % (len(defs), len(roots), NSHARDS))


if __name__ == '__main__':
    main()
