"""Per-property configuration of the driver: build flavours per tier,
evidence texts, event floors (a run that observed less is inconclusive)."""

COMMON_ASSUME = [
    "x86_64-linux, 64-bit usize, little endian only",
    "types and values outside the generated universes (A fixed, B per seed) are not covered",
    "xxh3-64 (xxhash-rust) and rustc's layout of repr(C) types are trusted",
]

Q = 'quick'
T = 'thorough'


def fl(quick, thorough):
    return {Q: quick, T: thorough}


# monitors that also run over universe B (fresh definitions per VERIF_SEED) in the thorough tier
UNIVERSE_B_PROPS = ['C01', 'C02', 'C03', 'C06', 'C07', 'C10', 'C11', 'C12', 'C13', 'C14', 'C15', 'C18']

PROPS = {
    'C01': dict(
        level='exploration', flavours=fl(['debug', 'fastrel'], ['debug', 'fastrel', 'asan', 'miri']),
        rule="every root type of universe A (and B in the thorough tier) x seeded values (variant-forcing first, then random; "
             "biased to empty/len-1 sequences, extreme integers, NaN payloads, non-ASCII strings); a case is the pair "
             "(root type, value-shape hash) and is non-trivial when the stream has a non-empty payload after the header; "
             "oracles: to_val(deserialize_full(serialize(v))) == v and reference_decode(bytes) == v",
        floors=fl({'roots': 700, 'evaluations': 20000, 'constructors': 30}, {'roots': 700, 'evaluations': 200000}),
        assumptions=COMMON_ASSUME + ["the reference decoder is written from the documentation, not from the implementation"]),
    'C02': dict(
        level='exploration', flavours=fl(['debug', 'fastrel', 'asan'], ['debug', 'fastrel', 'asan', 'miri']),
        rule="as C01; the ε-copy result is walked by glue typed with the documented substitution (rustc checks the type), "
             "compared with the original value and with the full-copy result of the same bytes; buffer base 256-aligned, "
             "exactly stream-sized; distinct = (root, value shape) with non-empty payload",
        floors=fl({'roots': 700, 'evaluations': 20000, 'borrowed_parts_walked': 5000}, {'roots': 700, 'evaluations': 200000}),
        assumptions=COMMON_ASSUME + ["types whose alignment unit is not a power of two (known finding under C07) are judged by C07 only"]),
    'C03': dict(
        level='exploration', flavours=fl(['debug', 'fastrel', 'asan'], ['debug', 'fastrel', 'asan', 'miri']),
        rule="every root x values; each borrowed part of the ε-copy result (pointer, length, element size/alignment) is matched "
             "against the block the reference model says must be borrowed and against the write_bytes event recorded while the "
             "real serializer wrote it; rebuilt containers must lie outside the buffer; allocator bytes/calls during "
             "deserialize_eps compared for payload scalings x2 x8 x64; distinct = (root, value shape) with a non-empty borrowed block",
        floors=fl({'roots': 700, 'borrowed_parts_checked': 5000, 'scaled_runs': 2000}, {'roots': 700, 'borrowed_parts_checked': 50000}),
        assumptions=COMMON_ASSUME + ["the tracking allocator counts per thread around the single deserialize_eps call"]),
    'C04': dict(
        level='exploration', flavours=fl(['debug'], ['debug', 'fastrel']), exhaustive=True,
        rule="all ordered pairs (T, U): T ranges over the roots of universe A (bytes = real serialization of a generated value), "
             "U over A plus the mutant universe M (every near-miss mutant of every user definition under the same type name, "
             "structural twins, layout-only mutants wrapped in every constructor); oracle = structural signatures of the model; "
             "a pair is non-trivial (near miss) when it is a designated mutant pair, a pair of structural twins, or T and U have the same outermost constructor / user type name; exhaustive over the universe",
        floors=fl({'pairs': 500000, 'mutant_kinds': 12}, {'pairs': 500000}),
        assumptions=COMMON_ASSUME + ["hash collisions of xxh3-64 are assumed not to occur among ~1500 types"]),
    'C05': dict(
        level='exploration', flavours=fl(['debug'], ['debug', 'fastrel']), custom=True,
        rule="definitions drawn from the derive grammar (fixed set A: 56 definitions / ~250 instantiations; fresh random set B per "
             "VERIF_SEED: ~40 definitions / ~120 instantiations): rustc type-checks `fn(DeserType<'a,T>) -> Expected<'a>` and the "
             "SerType assertion for every instantiation, then the C01/C02/C03 oracles run on every instantiation and variant; "
             "distinct = (instantiation, value shape)",
        floors=fl({'definitions': 50, 'instantiations': 150}, {'definitions': 50}),
        assumptions=COMMON_ASSUME + ["the generator's grammar is the supported one (DESIGN.md section 4.1); shapes documented as unsupported are never emitted"]),
    'C06': dict(
        level='exploration', flavours=fl(['debug', 'fastrel'], ['debug', 'fastrel']),
        rule="(a) every root x values: emitted bytes vs the reference encoder outside the don't-care mask, header hash words vs "
             "the published recipe; (b) every stream of the golden corpus written by the pinned build 709c463 (4 values per root of "
             "universe A): must load in both modes to the stored value, be re-emitted byte for byte, and carry the recipe's hashes; "
             "distinct = (root, value shape) resp. corpus line",
        floors=fl({'roots': 700, 'corpus_streams': 2500, 'hash_words_checked': 1400}, {'roots': 700, 'corpus_streams': 2500}),
        assumptions=COMMON_ASSUME + ["'any later build' is the build under test; stability is relative to the committed corpus"]),
    'C07': dict(
        level='exploration', flavours=fl(['debug', 'fastrel'], ['debug', 'fastrel', 'miri']),
        rule="every root x values serialised through an event-recording WriteWithNames that wraps the library's own WriterWithPos "
             "(default align/write_bytes do the work): per align event unit is a power of two >= native alignment, gap minimal and "
             "zero; per write_bytes event offset/length/unit equal the format model; returned count == bytes received; both readers "
             "consume exactly the stream; padding formula on all 4104 offsets x 13 units; distinct = (root, value shape) with a block",
        floors=fl({'align_events': 20000, 'formula_pairs': 50000, 'residues': 95}, {'align_events': 200000, 'residues': 95}),
        assumptions=COMMON_ASSUME),
    'C08': dict(
        level='exploration', flavours=fl(['debug'], ['debug']), custom=True,
        rule="roots of universe A x values whose file lengths sweep residues mod 64 x {load_full, load_mem, load_mmap, mmap} x 8 flag "
             "sets x {default features, no mmap}; loader result vs ε-copy of the file bytes; borrowed parts inside the hooked backing "
             "region; region 64-aligned, zero tail; strace log: madvise advice set == flags, mprotect read-only for load_mmap; moves "
             "(Box, Vec, channel to another thread, 8 concurrent readers, drop on another thread); distinct = (root, loader, flags)",
        floors=fl({'loader_cells': 18, 'residues_mod_64': 40, 'strace_sections': 100}, {'residues_mod_64': 64}),
        assumptions=COMMON_ASSUME + ["MADV_HUGEPAGE behaviour is the kernel's; only the advice issued is checked"]),
    'C09': dict(
        level='fault_enumeration', flavours=fl(['debug'], ['debug']), custom=True,
        rule="(1) exactly-once release: allocator events of the hooked backing block and mmap/munmap pairing in the strace log; "
             "(2) loader x failure cause (wrong type, each header field corrupted, truncation at sampled cuts, empty file, a directory in place of the file (read error in the body), missing "
             "file): heap live bytes and /proc/self/maps equal before/after; (3) probe programs per access path x result shape: "
             "rejected by the borrow checker, or compiled and run under ASan; distinct = (loader, failure cause) / probe",
        floors=fl({'failed_loads': 200, 'probe_programs': 20}, {'failed_loads': 2000}),
        assumptions=COMMON_ASSUME + ["'all safe client programs' is represented by a finite probe family per access path"]),
    'C10': dict(
        scale={'quick': 6, 'thorough': 10},
        level='fault_enumeration', flavours=fl(['debug', 'fastrel'], ['debug', 'fastrel']), exhaustive=True,
        rule="for every root x value: all 232 single-bit flips of the 29 fixed header bytes, the byte-reversed cookie, minor versions "
             "{0,1,2,3,255,256,257,0x7fff,0x8000,65534,65535} (all 65536 for two roots per shard in the thorough tier), major values; "
             "both modes; oracle = model of check_header's documented errors with payload; exhaustive per stream; "
             "distinct = (root, value shape)",
        floors=fl({'bit_flips': 150000, 'errors_seen': 7}, {'bit_flips': 600000}),
        assumptions=COMMON_ASSUME),
    'C11': dict(
        scale={'quick': 6, 'thorough': 10},
        level='fault_enumeration', flavours=fl(['debug', 'fastrel', 'asan'], ['debug', 'fastrel', 'asan', 'valgrind']), exhaustive=True,
        rule="every cut point k in [0, len) of every stream (root x values): deserialize_full(prefix) must be ReadError; "
             "deserialize_eps of a heap block of exactly k bytes must fail (error or bounds panic) - any over-read is an ASan/valgrind "
             "report; load_full / mmap of truncated files on sampled cuts; distinct = (root, value shape)",
        floors=fl({'cut_points': 100000, 'cut_regions': 6}, {'cut_points': 400000}),
        assumptions=COMMON_ASSUME),
    'C12': dict(
        scale={'quick': 6, 'thorough': 10}, miri={'quick': (64, 16, 1), 'thorough': (32, 16, 1)},
        level='exploration', flavours=fl(['debug', 'fastrel', 'asan'], ['debug', 'fastrel', 'asan', 'miri']), exhaustive=True,
        rule="every root x values x all 128 placements (stream copied to base+r, base 128-aligned, block of exactly r+len bytes): "
             "Ok iff every block encountered lands on a multiple of its unit (model), else AlignmentError; on Ok value equal and every "
             "reference aligned for its type; distinct = (root, value shape) with a block of unit > 1",
        floors=fl({'evaluations': 300000, 'refused_with_alignment_error': 50000}, {'evaluations': 1000000}),
        assumptions=COMMON_ASSUME),
    'C13': dict(
        scale={'quick': 6, 'thorough': 10},
        level='fault_enumeration', flavours=fl(['debug', 'fastrel', 'asan'], ['debug', 'fastrel', 'asan', 'valgrind']), exhaustive=True,
        rule="every root x values and every borrowed source (&[T], SerIter, Holder<&[T]>, Holder<SerIter>, nested) x 37 element types: "
             "writer failing at every byte position k in [0,len] (error and Ok(0)), flush failure (six error kinds, incl. a flush that keeps answering Interrupted / WouldBlock), 7 short-write / Interrupted "
             "patterns, failing+splitting writers, transient faults (one write call rejected, later ones accepted), the no-std writer "
             "failing at every call (sticky and transient), store(/dev/full); oracle: WriteError, "
             "accepted bytes are a prefix, source heap blocks registered as protected are never freed/reallocated, value unchanged",
        floors=fl({'fault_positions': 300000, 'seq_fault_positions': 50000, 'borrowed_sources': 5, 'transient_faults': 50000}, {'fault_positions': 1000000}),
        assumptions=COMMON_ASSUME + ["protected-block monitor: a dealloc of a registered block is recorded and skipped by the tracking allocator"]),
    'C14': dict(
        scale={'quick': 6, 'thorough': 10}, miri={'quick': (64, 16, 1), 'thorough': (32, 16, 1)},
        level='fault_enumeration', flavours=fl(['debug', 'fastrel', 'asan'], ['debug', 'fastrel', 'asan', 'miri']), exhaustive=True,
        rule="every root x values: 8 chunking patterns (1/2/7-byte, prime cycle, random, Interrupted interleavings) must give the same "
             "value; reader failing at every k in [0,len) (plain and chunked) must give ReadError without panic; large values (single "
             "requests beyond 2^16 bytes) under 8 fragmentations at 1 B..100 kB and sampled failure positions; distinct = (root, value shape)",
        floors=fl({'fault_positions': 150000, 'chunk_patterns': 15000, 'large_chunk_patterns': 40}, {'fault_positions': 600000}),
        assumptions=COMMON_ASSUME + ["leaks of partially built arrays on failure are by design and not judged"]),
    'C15': dict(
        scale={'quick': 6, 'thorough': 10},
        level='fault_enumeration', flavours=fl(['debug', 'fastrel'], ['debug', 'fastrel', 'asan']), exhaustive=True,
        rule="every tag occurrence in every stream (root x values; all variants forced): one-byte tags overwritten with all foreign "
             "values of 0..=255, pointer-width variant indices with n, n+1, n+2, 255, 256, 2^32-1, 2^32, 2^63, 2^64-2, 2^64-1; both "
             "modes; oracle InvalidTag(v) with exactly v; the written tag maps back to the written variant; distinct = (root, value shape) with a tag",
        floors=fl({'foreign_tags': 300000, 'variants_seen': 30}, {'foreign_tags': 1000000}),
        assumptions=COMMON_ASSUME + ["valid-but-different tags make the payload ill-typed; their outcome is unspecified and not judged"]),
    'C16': dict(
        level='exploration', flavours=fl(['debug', 'fastrel', 'asan'], ['debug', 'fastrel', 'asan']),
        rule="37 element types (26 zero-copy incl. zero-sized, 11 deep) x item sequences (empty, 1, 7, random) x {&[T], SerIter, "
             "Holder<&[T]>, Holder<SerIter>, Holder<Holder<&[T]>>} vs the vector form: byte identity incl. header (masked), equal hashes, "
             "deserialises as the vector type in both modes; lying iterators for all (announced, actual) in [0,8]^2; "
             "distinct = (element type, sequence shape, source kind) / (element type, pair)",
        floors=fl({'lying_pairs': 2000, 'byte_identical': 2000, 'sources': 5}, {'byte_identical': 15000}),
        assumptions=COMMON_ASSUME),
    'C17': dict(
        level='exploration', flavours=fl(['debug'], ['debug']), custom=True,
        rule="probe programs derived from every valid zero-copy definition of universe A: one field replaced by Vec<u8>, String, "
             "Box<[u8]>, a deep struct, a repr(C) struct left deep-copy, a hand-written CopyType=Zero type with IS_ZERO_COPY=false "
             "(directly, in an array, in a Vec, in a tuple, behind &[T] and SerIter), a hand-written wrapper Hand<F> declared zero-copy whose "
             "verified flag is the conjunction of its field flags, over every Copy built-in deep constructor (Option, Bound, ControlFlow, "
             "&[T], arrays of them; bare, in a Vec, in an array), repr(C) dropped, #[deep_copy] added; rustc verdict per program; programs "
             "that compile are run with a counting sink: must panic with no value byte written; distinct = probe program",
        floors=fl({'probe_programs': 200, 'layer2_probes_run': 30}, {'probe_programs': 200}),
        assumptions=COMMON_ASSUME),
    'C18': dict(
        miri={'quick': (64, 16, 2), 'thorough': (32, 16, 2)},
        level='exploration', flavours=fl(['debug', 'fastrel'], ['debug', 'fastrel', 'miri']),
        rule="every root x values: serialize_with_schema bytes == serialize bytes (masked); rows in pre-order rebuilt into a tree from "
             "names and extents: siblings contiguous, children end where the composite ends, top level tiles [0,len); PADDING rows zero; "
             "aligned rows on multiples; multiset of .zero rows == write_bytes events of the plain path; to_csv/debug do not panic and "
             "have rows+1 lines; distinct = (root, value shape) with more than 12 rows",
        floors=fl({'rows_checked': 150000, 'padding_rows': 3000}, {'rows_checked': 1000000}),
        assumptions=COMMON_ASSUME),
    'C19': dict(
        level='exploration', flavours=fl(['fastrel', 'debug'], ['fastrel', 'debug', 'asan']), exhaustive=True,
        rule="AlignedCursor<A2|A16|A64|A512> vs std::io::Cursor<Vec<u8>>: ALL histories of length <= 4 (<= 5 thorough) over a 16-letter "
             "alphabet (writes of 0/1/3/17/100 bytes, reads, read_exact, seeks from start/current/end incl. negative and past the end, "
             "set_position) plus seeded random histories of length 200 over a richer alphabet (i64::MIN/MAX, u64::MAX, usize::MAX); "
             "after every step return value, position, length, contents and storage alignment are compared; distinct = history",
        floors=fl({'histories_exhaustive': 250000, 'state_comparisons': 1000000}, {'histories_exhaustive': 4000000}),
        miri={'quick': (64, 16, 2), 'thorough': (32, 16, 3)},
        assumptions=["std::io::Cursor<Vec<u8>> is the specification", "writes are only issued at positions <= 1 MiB (the model would allocate the gap)",
                     "the position after a failed read_exact is unspecified by Read::read_exact and resynchronised, not judged"]),
}
