#!/bin/bash
# Validate the universe-B generator: every seed must type-check on the unchanged tree.
# usage: gen/validate_b.sh FROM TO
cd /verif
for seed in $(seq $1 $2); do
  VERIF_SEED=$seed python3 gen/mkuniverse.py > /dev/null || { echo "seed $seed: generator failed"; continue; }
  out=$(cd harness && CARGO_TARGET_DIR=/verif/target/debug RUSTFLAGS="--cfg epserde_verif" cargo check --offline -p ub 2>&1)
  if echo "$out" | grep -q "^error"; then echo "seed $seed: FAILS"; echo "$out" | grep -E "^error" -A6 | head -24; else echo "seed $seed: ok"; fi
done
VERIF_SEED=1 python3 gen/mkuniverse.py > /dev/null
