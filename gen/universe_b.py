"""Universe B: fresh definitions per VERIF_SEED, drawn from the supported derive
grammar (DESIGN.md section 4.1).  Only shapes the library documents as
supported are produced; the generator is validated over many seeds
(gen/validate_b.sh) so that a definition that stops compiling is a finding
about the derive macro, not generator noise."""

import random
from tyexpr import *
import universe_a as A

MOD = 'b'
ZPRIMS = ['u8', 'u16', 'u32', 'u64', 'u128', 'usize', 'i8', 'i16', 'i32', 'i64', 'i128', 'isize', 'f32', 'f64', 'bool', 'char',
          'NonZeroU8', 'NonZeroU32', 'NonZeroI64', 'NonZeroU128']
NAMES = ['alpha', 'beta', 'gamma', 'delta', 'eps', 'zeta', 'eta', 'theta', 'iota', 'kappa', 'lam', 'mu', 'nu', 'xi', 'omi', 'pi', 'rho', 'sigma',
         'tau', 'ups', 'phi', 'chi', 'psi', 'omega']


class Gen:
    def __init__(self, seed, ndefs):
        self.r = random.Random(seed * 7919 + 17)
        self.ndefs = ndefs
        self.defs = []
        self.zero_closed = []   # closed zero-copy instantiations usable as fields/elements
        self.deep_closed = []   # closed deep-copy instantiations
        self.insts = []         # all root instantiations

    # ---------------------------------------------------------- zero-copy
    def zero_field_type(self, depth=0):
        r = self.r
        k = r.random()
        if k < 0.45 or depth > 1:
            return P(r.choice(ZPRIMS))
        if k < 0.60:
            return Arr(self.zero_field_type(depth + 1), r.choice([0, 1, 2, 3, 5]))
        if k < 0.70:
            return Tup(P(r.choice(ZPRIMS)), r.choice([1, 2, 3, 4]))
        if k < 0.82 and self.zero_closed:
            return r.choice(self.zero_closed)
        if k < 0.88:
            return Rg(r.choice(COPY_RANGES), P(r.choice(['u8', 'u16', 'u32', 'u64', 'i32', 'usize'])))
        if k < 0.92:
            return UNIT
        if k < 0.95:
            return RFULL
        return Ph(P(r.choice(ZPRIMS)))

    def make_zero(self, i):
        r = self.r
        name = 'BZ%d' % i
        is_enum = r.random() < 0.3
        tparams, cparams = [], []
        # (bounded ε-copied parameters of enums do not compile: known finding, see C05 grammar probes)
        use_tp = r.random() < 0.25 and not is_enum
        use_cp = r.random() < 0.2
        use_ph = r.random() < 0.1
        if use_tp:
            tparams.append(TP('A', ['ZeroCopy']))
        if use_ph:
            tparams.append(TP('P', ['Copy', "'static"]))
        if use_cp:
            cparams.append(CP('N', 'usize', r.choice([None, 2])))
        special = []
        if use_tp:
            special.append(Pm('A'))
        if use_ph:
            special.append(Ph(Pm('P')))
        if use_cp:
            special.append(Arr(P(r.choice(ZPRIMS)), 'N'))

        def fields(n, prefix):
            fs = []
            for j in range(n):
                fs.append(self.zero_field_type())
            for sp in special_here:
                fs.insert(r.randrange(len(fs) + 1), sp)
            return fs
        reprs = ['C']
        if r.random() < 0.25:
            reprs.append('align(%d)' % r.choice([2, 4, 8, 16, 32]))
        if is_enum:
            nv = r.randint(1, 5)
            variants = []
            special_left = list(special)
            for v in range(nv):
                vk = r.choice(['unit', 'tuple', 'named'])
                special_here = []
                if special_left and (v == nv - 1 or r.random() < 0.5):
                    special_here = special_left
                    special_left = []
                    if vk == 'unit':
                        vk = 'named'
                n = 0 if vk == 'unit' else r.randint(0 if special_here else 1, 3)
                fts = fields(n, 'f') if vk != 'unit' else []
                if vk != 'unit' and not fts:
                    vk = 'unit'
                if vk == 'tuple':
                    fl = [(str(j), t) for j, t in enumerate(fts)]
                else:
                    fl = [(self.fname(j), t) for j, t in enumerate(fts)]
                variants.append(Variant('V%d' % v, vk, fl))
            if any(v.fields for v in variants) and r.random() < 0.3:
                reprs.append(r.choice(['u8', 'u16']))
            d = Def(name, 'enum', 'zero', variants, tparams, cparams, reprs, module=MOD)
        else:
            special_here = special
            kind = r.choice(['named'] * 7 + ['tuple'] * 2 + ['unit'])
            if special and kind == 'unit':
                kind = 'named'
            n = 0 if kind == 'unit' else r.randint(0 if special else 1, 5)
            fts = fields(n, 'f') if kind != 'unit' else []
            if kind != 'unit' and not fts:
                kind = 'unit'
            fl = [(str(j) if kind == 'tuple' else self.fname(j), t) for j, t in enumerate(fts)]
            d = Def(name, 'struct', 'zero', [Variant('', kind, fl)], tparams, cparams, reprs, module=MOD)
        return d

    def fname(self, j):
        return NAMES[(j * 5 + self.r.randrange(3)) % len(NAMES)] + str(j)

    # ---------------------------------------------------------- deep-copy
    def closed_type(self, depth, elem_of_zero_seq=False):
        """A random closed type valid as a field of a deep-copy definition."""
        r = self.r
        k = r.random()
        if depth <= 0 or k < 0.30:
            leaves = [P(r.choice(ZPRIMS)), STR, BOXSTR, P(r.choice(ZPRIMS)), UNIT]
            if self.zero_closed:
                leaves += [r.choice(self.zero_closed)] * 2
            if self.deep_closed and depth > 0:
                leaves += [r.choice(self.deep_closed)]
            return r.choice(leaves)
        t = self.closed_type(depth - 1)
        cons = [Vec, Bx, Opt, Bd, lambda x: Fl(x, P('u8')), lambda x: Fl(STR, x), lambda x: Arr(x, r.choice([0, 1, 2, 3]))]
        if t.usable_zero():
            cons += [lambda x: Tup(x, r.choice([1, 2, 3])), lambda x: Rg(r.choice(RANGES), x)]
        for _ in range(8):
            c = r.choice(cons)(t)
            if A.valid(c) and not self.odd(c):
                return c
        return t

    def odd(self, t):
        """Would introduce a non-power-of-two alignment unit (known finding, kept out of B)."""
        if t.kind == 'range' and t.args[0] in COPY_RANGES:
            s = t.args[1].size()
            return s is None or (s & (s - 1)) != 0 or s == 0
        return any(self.odd(c) for c in t.children())

    def make_deep(self, i):
        r = self.r
        name = 'BD%d' % i
        is_enum = r.random() < 0.35
        tparams, cparams, where = [], [], []
        special = []
        n_eps = r.choice([0, 0, 1, 1, 2])
        for j in range(n_eps):
            pn = 'ABC'[j]
            # the derive propagates inline bounds of ε-copied parameters to SerType/DeserType
            # for structs only: bounded ε-copied parameters of enums are a known finding (C05 probes)
            b = [] if is_enum else r.choice([[], [], ['Clone'], ['core::fmt::Debug']])
            tparams.append(TP(pn, b))
            special.append(Pm(pn))
        if r.random() < 0.3:
            tparams.append(TP('I'))
            special.append(r.choice([Vec, Opt, Bx, lambda x: Opt(Vec(x))])(Pm('I')))
            if r.random() < 0.4:
                where.append('I: Clone')
        if r.random() < 0.2:
            tparams.append(TP('P'))
            special.append(Ph(Pm('P')))
        if r.random() < 0.2:
            cparams.append(CP('N', 'usize', None))
            special.append(Arr(P(r.choice(ZPRIMS)), 'N'))
        if r.random() < 0.1:
            cparams.append(CP('K', r.choice(['bool', 'u8']), None))
        if tparams and not cparams and r.random() < 0.3:
            tparams[-1].default = P('u32') if tparams[-1].name != 'I' or True else None
        copy = r.choice(['none', 'none', 'deep'])

        def ftypes(n, special_here, in_enum):
            fs = []
            for _ in range(n):
                for _try in range(10):
                    t = self.closed_type(r.choice([0, 1, 1, 2]))
                    if in_enum and self.has_deep_array(t):
                        continue
                    break
                else:
                    t = P('u8')
                fs.append(t)
            for sp in special_here:
                fs.insert(r.randrange(len(fs) + 1), sp)
            return fs
        if is_enum:
            nv = r.randint(1, 6)
            variants = []
            left = list(special)
            for v in range(nv):
                vk = r.choice(['unit', 'tuple', 'named'])
                here = []
                if left and (v == nv - 1 or r.random() < 0.5):
                    k = r.randint(1, len(left))
                    here, left = left[:k], left[k:]
                    if v == nv - 1:
                        here += left
                        left = []
                    if vk == 'unit':
                        vk = 'tuple'
                n = 0 if vk == 'unit' else r.randint(0 if here else 1, 3)
                fts = ftypes(n, here, True) if vk != 'unit' else []
                if vk != 'unit' and not fts:
                    vk = 'unit'
                fl = [(str(j) if vk == 'tuple' else self.fname(j), t) for j, t in enumerate(fts)]
                variants.append(Variant('W%d' % v, vk, fl))
            d = Def(name, 'enum', copy, variants, tparams, cparams, [], where, module=MOD)
        else:
            kind = r.choice(['named'] * 7 + ['tuple'] * 2 + ['unit'])
            if special and kind == 'unit':
                kind = 'named'
            n = 0 if kind == 'unit' else r.randint(0 if special else 1, 5)
            fts = ftypes(n, special, False) if kind != 'unit' else []
            if kind != 'unit' and not fts:
                kind = 'unit'
            fl = [(str(j) if kind == 'tuple' else self.fname(j), t) for j, t in enumerate(fts)]
            reprs = ['C'] if copy == 'deep' and r.random() < 0.3 else []
            d = Def(name, 'struct', copy, [Variant('', kind, fl)], tparams, cparams, reprs, where, module=MOD)
        return d

    def has_deep_array(self, t):
        if t.kind == 'arr' and not t.args[0].is_zero():
            return True
        return any(self.has_deep_array(c) for c in t.children())

    # ------------------------------------------------------ instantiation
    def instantiate(self, d, k):
        r = self.r
        out = []
        for _ in range(k):
            targs = []
            for p in d.tparams:
                role = d.role(p.name)
                if d.copy == 'zero':
                    targs.append(P(r.choice(ZPRIMS)))
                elif role == 'eps':
                    targs.append(self.closed_type(r.choice([0, 1, 2])))
                elif role == 'internal':
                    for _t in range(10):
                        t = self.closed_type(r.choice([0, 1]))
                        if not t.is_zero() or t.is_copy():
                            break
                    else:
                        t = P('u16')
                    targs.append(t)
                else:
                    targs.append(r.choice([P('u8'), STR, Vec(P('u32'))]))
            cargs = []
            for c in d.cparams:
                cargs.append({'usize': r.choice([0, 1, 2, 3]), 'bool': r.choice([True, False]), 'u8': r.choice([0, 7, 255])}[c.ty])
            t = U(d, targs, cargs)
            if A.valid(t) and t.rust() not in [x.rust() for x in out]:
                out.append(t)
        return out

    def run(self):
        for i in range(self.ndefs):
            if self.r.random() < 0.4:
                d = self.make_zero(i)
            else:
                d = self.make_deep(i)
            self.defs.append(d)
            insts = self.instantiate(d, 2)
            for t in insts:
                self.insts.append(t)
                if d.copy == 'zero':
                    self.zero_closed.append(t)
                else:
                    self.deep_closed.append(t)
        roots = []
        seen = set()
        for t in self.insts:
            cands = [t]
            k = self.r.random()
            if k < 0.3:
                cands.append(Vec(t))
            elif k < 0.45:
                cands.append(Opt(t))
            elif k < 0.55:
                cands.append(U(A.D2, [t]))
            elif k < 0.62 and t.usable_zero():
                cands.append(Arr(t, 2))
            for c in cands:
                if A.valid(c) and c.rust() not in seen:
                    seen.add(c.rust())
                    roots.append(c)
        return self.defs, roots


def build(seed, ndefs):
    return Gen(seed, ndefs).run()
