"""Universe M (C04): near-miss mutants of every definition of universe A, each
under the *same type name* in a sibling module, plus structural twins.

Only `HasTy` glue is generated for them: they are used as deserialisation
targets (U) for bytes written as the original type (T)."""

import copy
from tyexpr import *
import universe_a as A

SAME_SIZE = {'u8': 'i8', 'i8': 'u8', 'u16': 'i16', 'i16': 'u16', 'u32': 'i32', 'i32': 'u32', 'u64': 'i64', 'i64': 'u64',
             'u128': 'i128', 'f32': 'u32', 'f64': 'u64', 'bool': 'u8', 'char': 'u32', 'usize': 'u64',
             'NonZeroU16': 'u16', 'NonZeroI64': 'i64'}


def clone(d, module, **changes):
    n = copy.copy(d)
    n.variants = [Variant(v.name, v.kind, list(v.fields)) for v in d.variants]
    n.tparams = [TP(p.name, list(p.bounds), p.default) for p in d.tparams]
    n.cparams = [CP(c.name, c.ty, c.default) for c in d.cparams]
    n.reprs = list(d.reprs)
    n.where = list(d.where)
    n.module = module
    n.origin = d
    n.order = list(d.order) if d.order else None
    for k, v in changes.items():
        setattr(n, k, v)
    return n


def retype(t):
    """Replace the first primitive found by a same-size one; None if none."""
    if t.kind == 'prim' and t.args[0] in SAME_SIZE:
        return P(SAME_SIZE[t.args[0]])
    if t.kind in ('vec', 'boxslice', 'opt', 'bound', 'phantom'):
        r = retype(t.args[0])
        return None if r is None else T(t.kind, r)
    if t.kind in ('arr', 'tup'):
        r = retype(t.args[0])
        return None if r is None else T(t.kind, r, t.args[1])
    if t.kind == 'range':
        r = retype(t.args[1])
        return None if r is None else T(t.kind, t.args[0], r)
    return None


def reshape(t):
    """Sequence kind / array length / tuple arity change; None if n/a."""
    if t.kind == 'vec':
        return Bx(t.args[0]), 'seq-kind'
    if t.kind == 'boxslice':
        return Vec(t.args[0]), 'seq-kind'
    if t.kind == 'str':
        return BOXSTR, 'seq-kind'
    if t.kind == 'arr' and isinstance(t.args[1], int):
        return Arr(t.args[0], t.args[1] + 1), 'array-len'
    if t.kind == 'tup' and t.args[1] < 12:
        return Tup(t.args[0], t.args[1] + 1), 'tuple-arity'
    return None, None


def mutants_of(d, idx):
    """Yield (kind, expect_same, mutated def)."""
    out = []

    def mod(kind):
        return 'm%d_%s' % (idx, kind.replace('-', '_'))

    # twin and parameter rename: same serialised structure
    out.append(('twin', True, clone(d, mod('twin'))))
    if d.tparams:
        n = clone(d, mod('param-rename'))
        old = n.tparams[0].name
        new = old + 'x'
        n.tparams[0].name = new
        n.variants = [Variant(v.name, v.kind, [(fn, ft.subst({**{p.name: Pm(p.name) for p in d.tparams}, old: Pm(new)},
                                                             {c.name: c.name for c in d.cparams})) for (fn, ft) in v.fields])
                      for v in n.variants]
        n.where = [w.replace(old + ':', new + ':') for w in n.where]
        n.param_map = {old: new}
        if n.order:
            n.order = [new if x == old else x for x in n.order]
        out.append(('param-rename', True, n))
    # type name
    out.append(('type-name', False, clone(d, mod('type-name'), name=d.name + 'x')))
    fs = d.variants[0].fields if d.kind == 'struct' else None
    # field rename (named only)
    for vi, v in enumerate(d.variants):
        if v.kind == 'named' and v.fields:
            n = clone(d, mod('field-rename'))
            f0 = n.variants[vi].fields[0]
            n.variants[vi].fields[0] = (f0[0] + '_x', f0[1])
            out.append(('field-rename', False, n))
            break
    # swap two fields
    for vi, v in enumerate(d.variants):
        if len(v.fields) >= 2:
            (n0, t0), (n1, t1) = v.fields[0], v.fields[1]
            if v.kind == 'tuple' and t0 == t1:
                continue
            n = clone(d, mod('field-swap'))
            if v.kind == 'tuple':
                n.variants[vi].fields[0], n.variants[vi].fields[1] = (n0, t1), (n1, t0)
            else:
                n.variants[vi].fields[0], n.variants[vi].fields[1] = (n1, t1), (n0, t0)
            out.append(('field-swap', False, n))
            break
    # same-size retype / reshape of one field
    done_r = done_s = False
    for vi, v in enumerate(d.variants):
        for fi, (fn, ft) in enumerate(v.fields):
            r = retype(ft)
            if r is not None and not done_r:
                n = clone(d, mod('field-retype'))
                n.variants[vi].fields[fi] = (fn, r)
                if d.kind == 'struct' and any(isinstance(t.args[1] if t.kind == 'arr' else 0, str) for (_, t) in v.fields):
                    pass
                out.append(('field-retype', False, n))
                done_r = True
            s, kind = reshape(ft)
            if s is not None and not done_s and not (d.copy == 'zero' and kind == 'seq-kind'):
                n = clone(d, mod(kind))
                n.variants[vi].fields[fi] = (fn, s)
                out.append((kind, False, n))
                done_s = True
    # copy kind
    if d.copy == 'zero':
        out.append(('copy-kind', False, clone(d, mod('copy-kind'), copy='deep')))
    elif 'C' in d.reprs and all(t.kind in ('prim',) for (_, t) in d.all_fields()):
        out.append(('copy-kind', False, clone(d, mod('copy-kind'), copy='zero')))
    # const name
    if d.cparams:
        n = clone(d, mod('const-name'))
        old = n.cparams[0].name
        new = old + 'X'
        n.cparams[0].name = new
        n.variants = [Variant(v.name, v.kind, [(fn, ft.subst({p.name: Pm(p.name) for p in d.tparams},
                                                             {**{c.name: c.name for c in d.cparams}, old: new})) for (fn, ft) in v.fields])
                      for v in n.variants]
        if n.order:
            n.order = [new if x == old else x for x in n.order]
        out.append(('const-name', False, n))
    # variants
    if d.kind == 'enum':
        n = clone(d, mod('variant-rename'))
        n.variants[0].name = n.variants[0].name + 'x'
        out.append(('variant-rename', False, n))
        if len(d.variants) >= 2:
            n = clone(d, mod('variant-reorder'))
            n.variants[0], n.variants[1] = n.variants[1], n.variants[0]
            out.append(('variant-reorder', False, n))
    # representation attribute (layout only)
    if d.copy == 'zero':
        cur = max([int(r[6:-1]) for r in d.reprs if r.startswith('align(')] + [1])
        out.append(('repr-align', False, clone(d, mod('repr-align'), reprs=[r for r in d.reprs if not r.startswith('align(')] + ['align(%d)' % max(32, cur * 2)])))
        if d.kind == 'enum' and any(v.fields for v in d.variants) and not any(r in ('u8', 'u16', 'u32', 'u64', 'i8', 'i16', 'i32', 'i64') for r in d.reprs):
            out.append(('repr-int', False, clone(d, mod('repr-int'), reprs=d.reprs + ['u16'])))
    return out


def rewrite(t, d, m):
    """Replace definition d by its mutant m inside a closed type expression."""
    if t.kind == 'user':
        targs = [rewrite(a, d, m) for a in t.args[1]]
        if t.args[0] is d:
            return T('user', m, targs, list(t.args[2]))
        return T('user', t.args[0], targs, list(t.args[2]))
    k = t.kind
    if k in ('phantom', 'vec', 'boxslice', 'opt', 'bound'):
        return T(k, rewrite(t.args[0], d, m))
    if k in ('arr', 'tup'):
        return T(k, rewrite(t.args[0], d, m), t.args[1])
    if k == 'range':
        return T(k, t.args[0], rewrite(t.args[1], d, m))
    if k == 'flow':
        return T(k, rewrite(t.args[0], d, m), rewrite(t.args[1], d, m))
    return t


def uses(t, d):
    if t.kind == 'user' and t.args[0] is d:
        return True
    return any(uses(c, d) for c in t.children())


def uses_in_fields(t, d, seen=None):
    """d occurs in t, possibly inside the fields of other definitions."""
    if uses(t, d):
        return True
    if t.kind == 'user':
        dd = t.args[0]
        for (_, ft) in dd.all_fields():
            if ft.kind != 'param' and _mentions_def(ft, d):
                return True
    return any(uses_in_fields(c, d) for c in t.children())


def _mentions_def(ft, d):
    if ft.kind == 'user' and ft.args[0] is d:
        return True
    return any(_mentions_def(c, d) for c in ft.children() if c.kind != 'param')


def build():
    """Returns (mutant definitions, [(kind, expect_same, original root T, mutant root U)])."""
    roots = A.roots()
    defs = []
    pairs = []
    for idx, d in enumerate(A.DEFS):
        # instantiations of d among the roots: top-level first, then nested
        top = [t for t in roots if t.kind == 'user' and t.args[0] is d]
        nested = [t for t in roots if uses(t, d) and t not in top]
        chosen = top[:2] + nested[:2]
        if not chosen:
            continue
        for (kind, same, m) in mutants_of(d, idx):
            defs.append(m)
            for t in chosen:
                u = rewrite(t, d, m)
                if A.valid(u):
                    pairs.append((kind, same, t, u))
            # layout-only and retyped zero-copy mutants inside every constructor
            if d.copy == 'zero' and kind in ('repr-align', 'field-retype', 'repr-int', 'field-swap') and top and not d.tparams and not d.cparams:
                z0, z1 = top[0], rewrite(top[0], d, m)
                layout_only = kind in ('repr-align', 'repr-int')
                for (wrap, phantom) in ((Vec, False), (Bx, False), (Opt, False), (Bd, False), (Ph, True),
                                        (lambda x: Arr(x, 0), False), (lambda x: Arr(x, 2), False), (lambda x: Tup(x, 2), False),
                                        (lambda x: Fl(x, P('u8')), False), (lambda x: Fl(P('u8'), x), False),
                                        (lambda x: Rg('RangeTo', x), False), (lambda x: Rg('Range', x), False),
                                        (lambda x: Bd(Vec(x)), False), (lambda x: Opt(Bd(x)), False), (lambda x: Vec(Arr(x, 0)), False),
                                        (lambda x: U(A.D2, [x]), False), (lambda x: U(A.D2, [Vec(x)]), False), (lambda x: U(A.D4, [x]), False),
                                        (lambda x: U(A.D5, [x]), True), (lambda x: U(A.E4, [x, P('u8')]), False),
                                        (lambda x: U(A.E4, [P('u8'), x]), True)):
                    try:
                        a, b = wrap(z0), wrap(z1)
                    except Exception:
                        continue
                    if A.valid(a) and A.valid(b):
                        # no data and no padding is ever written for a PhantomData:
                        # a layout-only change of its parameter is not a structural one
                        pairs.append((kind + '-wrapped', same or (phantom and layout_only), a, b))
    return defs, pairs
