#!/usr/bin/env python3
"""Write /verif/MANIFEST.json from gen/props.py."""
import json, os, subprocess, sys
sys.path.insert(0, os.path.dirname(os.path.abspath(__file__)))
import props as P
VERIF = os.path.dirname(os.path.dirname(os.path.abspath(__file__)))
TECH = {
 'C01': 'runtime monitor: seeded workload over a generated type universe, differential oracle against an independent reference decoder; Miri/ASan in the thorough tier',
 'C02': 'runtime monitor: typed walk of ε-copy results vs original value and full-copy result; ASan build, Miri sample',
 'C03': 'runtime monitor: trace check of borrowed pointers against recorded write_bytes events and the reference stream map; tracking allocator for allocation independence; ASan',
 'C04': 'runtime monitor: all-pairs differential check of real header hashes and real deserializer outcomes against model structural signatures over a mutant universe',
 'C05': 'runtime monitor with programs as inputs: rustc verdict on ε-copy type assertions for every generated definition + round-trip/borrow oracles on every instantiation',
 'C06': 'runtime monitor: masked byte comparison with an independent reference encoder and hash recipe; offline replay of a golden corpus recorded from the pinned build',
 'C07': 'online trace checker over align/write_bytes events recorded at the WriteWithNames boundary while the real default implementations run',
 'C08': 'runtime invariants on loaded MemCases through an add-only hook (backing region), offline checker over an strace event log, cross-thread stress, two feature configurations',
 'C09': 'exactly-once / no-leak monitors (tracking allocator, /proc/self/maps, strace munmap pairing) under fault enumeration; probe programs judged by rustc and, if they compile, by ASan',
 'C10': 'fault enumeration (all single-bit header flips) with a model oracle of the specific error and payload',
 'C11': 'fault enumeration over every cut point; exact-size heap buffers so ASan/valgrind see any over-read',
 'C12': 'runtime monitor over all 128 buffer placements with a model oracle; ASan, Miri sample',
 'C13': 'fault-injecting writers at every byte position, protected-block allocator monitor for source integrity; ASan, valgrind',
 'C14': 'fault-injecting / fragmenting readers at every byte position; ASan, Miri sample',
 'C15': 'fault enumeration over every tag position and foreign tag value with an exact-payload oracle',
 'C16': 'differential byte-level monitor (slice / iterator / holder forms vs vector form) incl. lying iterators; ASan',
 'C17': 'probe programs as inputs: rustc verdict, and for programs that compile a run-time monitor with a counting sink',
 'C18': 'offline checker of the recorded schema (tree rebuilt from pre-order rows) against the written bytes and the recorded write_bytes events',
 'C19': 'model-based differential monitor against std::io::Cursor over exhaustively enumerated short histories and long random ones',
}
LEVEL_TEXT = {
 'exploration': 'held on every execution observed: the real code was run on the generated cases listed in the evidence and an independent oracle judged each one; nothing is proved about cases outside the generated universe',
 'fault_enumeration': 'every fault position of every stream explored was enumerated and judged by the oracle (exhaustive per stream); streams come from the generated universe',
}
def main():
    hooks = subprocess.run(['git', '-C', '/repo', 'log', '--format=%H %s'], capture_output=True, text=True).stdout.splitlines()
    hook_commits = [l.split()[0] for l in hooks if 'verif hook' in l]
    checks = []
    for pid, s in sorted(P.PROPS.items()):
        checks.append({
            'property_id': pid,
            'quick_cmd': './check %s --tier quick' % pid,
            'thorough_cmd': './check %s --tier thorough' % pid,
            'evidence_file': 'evidence/%s.json' % pid,
            'replay_cmd_template': './check %s --replay {path}' % pid,
            'engine': 'epv',
            'level_claimed': {'category': s['level'], 'text': LEVEL_TEXT[s['level']] + '. ' + s['rule'][:400], 'design_ref': 'DESIGN.md section 5/' + pid},
            'level_note': '; '.join(s['assumptions']),
            'technique': TECH[pid],
        })
    m = {
        'version': 1,
        'setup_cmd': './setup',
        'hooks': {
            'guard': 'epserde_verif',
            'enable': "RUSTFLAGS='--cfg epserde_verif' (set by ./check for every build flavour; the harness depends on /repo/epserde and /repo/epserde-derive by path)",
            'baseline_off_cmd': 'cd /repo && cargo test --workspace --no-fail-fast --offline',
            'source_commits': hook_commits,
            'add_only': True,
        },
        'engines': [{'name': 'epv', 'path': 'harness/epv', 'serves_properties': sorted(P.PROPS), 'kind_free_text': 'monitor binary (Rust) built against /repo in several flavours (debug, opt-level 1 release, ASan, no-mmap, Miri, valgrind/strace on the debug build); driven by ./check (python)'},
                    {'name': 'probes', 'path': 'gen/probes.py', 'serves_properties': ['C09', 'C17'], 'kind_free_text': 'generated single-file probe programs judged by rustc and, when they compile, by running them (C09 under ASan)'}],
        'checks': checks,
        'not_applicable': [],
        'notes': 'Runtime monitoring only. Known findings (genuine defects recorded, not repaired) are in known_findings.json; repaired defects are "fix:" commits in /repo listed there with status fixed.',
    }
    json.dump(m, open(os.path.join(VERIF, 'MANIFEST.json'), 'w'), indent=1, ensure_ascii=False)
main()
