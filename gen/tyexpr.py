"""Type expressions and user definitions of the generated universes.

This is the generator's own, independent statement of the supported grammar
and of the documented ε-copy substitution rule (used to emit the *expected*
DeserType of every root, which rustc then checks against the derived one).
"""

PRIMS = ['u8', 'u16', 'u32', 'u64', 'u128', 'usize', 'i8', 'i16', 'i32', 'i64', 'i128', 'isize',
         'f32', 'f64', 'bool', 'char',
         'NonZeroU8', 'NonZeroU16', 'NonZeroU32', 'NonZeroU64', 'NonZeroU128', 'NonZeroUsize',
         'NonZeroI8', 'NonZeroI16', 'NonZeroI32', 'NonZeroI64', 'NonZeroI128', 'NonZeroIsize']

PRIM_SIZE = {'u8': 1, 'i8': 1, 'bool': 1, 'NonZeroU8': 1, 'NonZeroI8': 1,
             'u16': 2, 'i16': 2, 'NonZeroU16': 2, 'NonZeroI16': 2,
             'u32': 4, 'i32': 4, 'f32': 4, 'char': 4, 'NonZeroU32': 4, 'NonZeroI32': 4,
             'u64': 8, 'i64': 8, 'f64': 8, 'usize': 8, 'isize': 8, 'NonZeroU64': 8, 'NonZeroI64': 8,
             'NonZeroUsize': 8, 'NonZeroIsize': 8,
             'u128': 16, 'i128': 16, 'NonZeroU128': 16, 'NonZeroI128': 16}

RANGES = ['Range', 'RangeFrom', 'RangeInclusive', 'RangeTo', 'RangeToInclusive']
COPY_RANGES = ['RangeTo', 'RangeToInclusive']


class T:
    """A type expression.  kind ∈ prim unit phantom rangefull str boxstr vec
    boxslice arr tup opt range bound flow user param"""

    def __init__(self, kind, *args):
        self.kind = kind
        self.args = args

    def __repr__(self):
        return self.rust()

    def __eq__(self, o):
        return isinstance(o, T) and self.rust() == o.rust()

    def __hash__(self):
        return hash(self.rust())

    # -- constructors ------------------------------------------------------
    # args: prim(name) phantom(t) vec(t) boxslice(t) arr(t, n|constparam) tup(t, n)
    #       opt(t) range(kind, t) bound(t) flow(b, c) user(defn, [targs], [cargs]) param(name)

    def children(self):
        k = self.kind
        if k in ('phantom', 'vec', 'boxslice', 'opt', 'bound'):
            return [self.args[0]]
        if k in ('arr', 'tup'):
            return [self.args[0]]
        if k == 'range':
            return [self.args[1]]
        if k == 'flow':
            return [self.args[0], self.args[1]]
        if k == 'user':
            return list(self.args[1])
        return []

    def subst(self, tmap, cmap):
        k = self.kind
        if k == 'param':
            return tmap[self.args[0]]
        if k in ('phantom', 'vec', 'boxslice', 'opt', 'bound'):
            return T(k, self.args[0].subst(tmap, cmap))
        if k == 'arr':
            n = self.args[1]
            if isinstance(n, str):
                n = cmap[n]
            return T(k, self.args[0].subst(tmap, cmap), n)
        if k == 'tup':
            return T(k, self.args[0].subst(tmap, cmap), self.args[1])
        if k == 'range':
            return T(k, self.args[0], self.args[1].subst(tmap, cmap))
        if k == 'flow':
            return T(k, self.args[0].subst(tmap, cmap), self.args[1].subst(tmap, cmap))
        if k == 'user':
            return T(k, self.args[0], [a.subst(tmap, cmap) for a in self.args[1]],
                     [cmap[c] if isinstance(c, str) and c in cmap else c for c in self.args[2]])
        return self

    def mentions(self, pname):
        if self.kind == 'param':
            return self.args[0] == pname
        return any(c.mentions(pname) for c in self.children())

    def only_in_phantom(self, pname, inside=False):
        """True iff every mention of pname is inside a PhantomData."""
        if self.kind == 'param':
            return self.args[0] != pname or inside
        if self.kind == 'phantom':
            return self.args[0].only_in_phantom(pname, True)
        return all(c.only_in_phantom(pname, inside) for c in self.children())

    # -- classification (closed types only) -------------------------------
    def is_zero(self):
        k = self.kind
        if k in ('prim', 'unit', 'phantom', 'rangefull', 'range', 'tup'):
            return True
        if k == 'arr':
            return self.args[0].is_zero()
        if k == 'user':
            return self.args[0].copy == 'zero'
        return False

    def is_copy(self):
        """Rust `Copy` (needed for zero-copy elements / fields)."""
        k = self.kind
        if k in ('prim', 'unit', 'phantom', 'rangefull'):
            return True
        if k in ('arr', 'tup'):
            return self.args[0].is_copy()
        if k == 'range':
            return self.args[0] in COPY_RANGES and self.args[1].is_copy()
        if k == 'user':
            return self.args[0].copy == 'zero'
        return False

    def usable_zero(self):
        """Can be an element of a zero-copy sequence / field of a zero-copy type."""
        return self.is_zero() and self.is_copy()

    def self_eps(self):
        """DeserType is the type itself (so it can instantiate a bounded
        parameter of a zero-copy definition)."""
        return self.kind in ('prim', 'unit', 'phantom', 'rangefull')

    def size(self):
        """size_of for zero-copy types made of primitives (None if unknown)."""
        k = self.kind
        if k == 'prim':
            return PRIM_SIZE[self.args[0]]
        if k in ('unit', 'phantom', 'rangefull'):
            return 0
        if k in ('arr', 'tup'):
            s = self.args[0].size()
            return None if s is None else s * self.args[1]
        return None

    # -- rendering ---------------------------------------------------------
    def rust(self):
        k = self.kind
        a = self.args
        if k == 'prim':
            return a[0]
        if k == 'unit':
            return '()'
        if k == 'phantom':
            return 'PhantomData<%s>' % a[0].rust()
        if k == 'rangefull':
            return 'RangeFull'
        if k == 'str':
            return 'String'
        if k == 'boxstr':
            return 'Box<str>'
        if k == 'vec':
            return 'Vec<%s>' % a[0].rust()
        if k == 'boxslice':
            return 'Box<[%s]>' % a[0].rust()
        if k == 'arr':
            return '[%s; %s]' % (a[0].rust(), a[1])
        if k == 'tup':
            return '(%s)' % ''.join(a[0].rust() + ', ' for _ in range(a[1]))
        if k == 'opt':
            return 'Option<%s>' % a[0].rust()
        if k == 'range':
            return '%s<%s>' % (a[0], a[1].rust())
        if k == 'bound':
            return 'Bound<%s>' % a[0].rust()
        if k == 'flow':
            return 'ControlFlow<%s, %s>' % (a[0].rust(), a[1].rust())
        if k == 'param':
            return a[0]
        if k == 'user':
            d = a[0]
            args = d.ordered_args([x.rust() for x in a[1]], [const_lit(c) for c in a[2]])
            path = '%s::%s' % (d.module, d.name) if d.module else d.name
            return path + ('<%s>' % ', '.join(args) if args else '')
        raise ValueError(k)

    def eps(self, lt="'a"):
        """Expected ε-copy type per the documented substitution rule."""
        k = self.kind
        a = self.args
        if k in ('prim', 'unit', 'phantom', 'rangefull'):
            return self.rust()
        if k in ('str', 'boxstr'):
            return '&%s str' % lt
        if k == 'vec':
            return '&%s [%s]' % (lt, a[0].rust()) if a[0].is_zero() else 'Vec<%s>' % a[0].eps(lt)
        if k == 'boxslice':
            return '&%s [%s]' % (lt, a[0].rust()) if a[0].is_zero() else 'Box<[%s]>' % a[0].eps(lt)
        if k == 'arr':
            return '&%s %s' % (lt, self.rust()) if a[0].is_zero() else '[%s; %s]' % (a[0].eps(lt), a[1])
        if k == 'tup':
            return '&%s %s' % (lt, self.rust())
        if k == 'opt':
            return 'Option<%s>' % a[0].eps(lt)
        if k == 'range':
            return '%s<%s>' % (a[0], a[1].eps(lt))
        if k == 'bound':
            return 'Bound<%s>' % a[0].eps(lt)
        if k == 'flow':
            return 'ControlFlow<%s, %s>' % (a[0].eps(lt), a[1].eps(lt))
        if k == 'user':
            d = a[0]
            if d.copy == 'zero':
                return '&%s %s' % (lt, self.rust())
            targs = []
            for (p, targ) in zip(d.tparams, a[1]):
                targs.append(targ.eps(lt) if d.role(p.name) == 'eps' else targ.rust())
            args = d.ordered_args(targs, [const_lit(c) for c in a[2]])
            path = '%s::%s' % (d.module, d.name) if d.module else d.name
            return path + ('<%s>' % ', '.join(args) if args else '')
        raise ValueError(k)

    def depth(self):
        cs = self.children()
        return 1 + max([c.depth() for c in cs], default=0) if cs or self.kind == 'user' else 0


def const_lit(c):
    if isinstance(c, bool):
        return 'true' if c else 'false'
    if isinstance(c, str) and len(c) == 1 and not c.isdigit():
        return "'%s'" % c
    return str(c)


def P(n):
    return T('prim', n)


UNIT = T('unit')
RFULL = T('rangefull')
STR = T('str')
BOXSTR = T('boxstr')


def Ph(t): return T('phantom', t)
def Vec(t): return T('vec', t)
def Bx(t): return T('boxslice', t)
def Arr(t, n): return T('arr', t, n)
def Tup(t, n): return T('tup', t, n)
def Opt(t): return T('opt', t)
def Rg(k, t): return T('range', k, t)
def Bd(t): return T('bound', t)
def Fl(b, c): return T('flow', b, c)
def Pm(n): return T('param', n)
def U(d, targs=(), cargs=()): return T('user', d, list(targs), list(cargs))


class TP:
    """Type parameter: name, inline bounds (list of str), default (T or None)."""

    def __init__(self, name, bounds=(), default=None):
        self.name = name
        self.bounds = list(bounds)
        self.default = default


class CP:
    """Const parameter: name, rust type, default literal or None."""

    def __init__(self, name, ty='usize', default=None):
        self.name = name
        self.ty = ty
        self.default = default


class Variant:
    def __init__(self, name, kind, fields):
        self.name = name          # '' for structs
        self.kind = kind          # 'named' | 'tuple' | 'unit'
        self.fields = fields      # [(fname, T)]


class Def:
    def __init__(self, name, kind, copy, variants, tparams=(), cparams=(), reprs=(), where=(), module='',
                 derives=(), order=None):
        self.name = name
        self.kind = kind            # 'struct' | 'enum'
        self.copy = copy            # 'zero' | 'deep' | 'none' (deep without attribute)
        self.variants = variants
        self.tparams = list(tparams)
        self.cparams = list(cparams)
        self.reprs = list(reprs)    # e.g. ['C'], ['C', 'align(16)'], ['C', 'u8']
        self.where = list(where)    # raw predicates, e.g. 'B: Clone'
        self.module = module
        self.derives = list(derives)
        # declaration order of the generic parameters (names); default: types, then consts
        self.order = list(order) if order else None

    def param_order(self):
        return self.order or ([p.name for p in self.tparams] + [c.name for c in self.cparams])

    def ordered_args(self, targs, cargs):
        """Interleave rendered type and const arguments in declaration order."""
        m = {}
        for p, a in zip(self.tparams, targs):
            m[p.name] = a
        for c, a in zip(self.cparams, cargs):
            m[c.name] = a
        return [m[n] for n in self.param_order()]

    def all_fields(self):
        return [f for v in self.variants for f in v.fields]

    def role(self, pname):
        fs = self.all_fields()
        if any(t.kind == 'param' and t.args[0] == pname for (_, t) in fs):
            return 'eps'
        if all(t.only_in_phantom(pname) for (_, t) in fs):
            return 'phantom'
        return 'internal'
