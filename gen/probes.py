"""Probe programs: inputs that are *programs* (C09 part 3, C17).

Each probe is a single-file Rust program compiled with rustc against the
harness's dependency directory.  The observation is rustc's verdict (JSON
diagnostics); a probe that compiles is run (C09: under ASan) and judged by
what it prints / how it dies.
"""

import universe_a as A
import emit
from tyexpr import *

HEAD = '''#![allow(unused, dead_code, non_camel_case_types)]
use epserde::prelude::*;
use std::io::Write;
use std::marker::PhantomData;
use std::num::*;
use std::ops::{Bound, ControlFlow, Range, RangeFrom, RangeFull, RangeInclusive, RangeTo, RangeToInclusive};
'''

# --------------------------------------------------------------------- C09
C09_COMMON = HEAD + '''
#[derive(Epserde, Debug, Clone, Copy)]
#[zero_copy]
#[repr(C)]
struct Z { a: u64, b: u32 }

#[derive(Epserde, Debug, Clone)]
struct Holder<A> { a: A, n: u32 }

fn buffer<T: Serialize>(x: &T) -> Vec<u128> {
    let mut v: Vec<u8> = Vec::new();
    x.serialize(&mut v).unwrap();
    let mut out = vec![0u128; (v.len() + 15) / 16 + 1];
    unsafe { std::ptr::copy_nonoverlapping(v.as_ptr(), out.as_mut_ptr() as *mut u8, v.len()); }
    out
}
fn bytes(b: &Vec<u128>) -> &[u8] { unsafe { std::slice::from_raw_parts(b.as_ptr() as *const u8, b.len() * 16) } }
fn file<T: Serialize>(x: &T, name: &str) -> std::path::PathBuf {
    let p = std::env::temp_dir().join(format!("epv-probe-{}-{}", std::process::id(), name));
    x.store(&p).unwrap();
    p
}
fn churn() {
    // reuse freed memory so that a dangling read is not accidentally "right"
    let mut junk = Vec::new();
    for i in 0..64 { junk.push(vec![0xABu8; 64 + i * 16]); }
    std::hint::black_box(&junk);
}
'''

SHAPES = {
    # name: (type, value expr, ε-copy type with lifetime 'x, read expression over `r`)
    'slice': ('Vec<u64>', 'vec![1u64, 2, 3, 4, 5, 6, 7, 8, 9, 10, 11, 12, 13, 14, 15, 16, 17, 18, 19, 20]', "&'x [u64]", 'r.iter().sum::<u64>()'),
    'str': ('String', '"hello, world: a string long enough to live on the heap".to_string()', "&'x str", 'r.len() as u64 + r.as_bytes()[7] as u64'),
    'zref': ('Z', 'Z { a: 7, b: 9 }', "&'x Z", 'r.a + r.b as u64'),
    'field': ('Holder<Vec<u32>>', 'Holder { a: vec![1u32, 2, 3, 4, 5, 6, 7, 8, 9, 10, 11, 12, 13, 14, 15, 16, 17, 18, 19, 20], n: 5 }',
              "Holder<&'x [u32]>", 'r.a.iter().map(|x| *x as u64).sum::<u64>() + r.n as u64'),
}


def c09_probes():
    """[(name, source, expectation)], expectation ∈ reject | run"""
    out = []
    for sname, (ty, val, eps, read) in SHAPES.items():
        e_static = eps.replace("'x", "'static")
        # -- borrowed results of deserialize_eps cannot outlive the buffer
        out.append(('eps_return_from_scope_%s' % sname, C09_COMMON + '''
fn leak() -> %s {
    let buf = buffer(&%s);
    let r = <%s>::deserialize_eps(bytes(&buf)).unwrap();
    r
}
fn main() { let r = leak(); churn(); println!("{}", %s); }
''' % (e_static, val, ty, read), 'reject'))
        out.append(('eps_store_in_outer_%s' % sname, C09_COMMON + '''
fn main() {
    let keep;
    {
        let buf = buffer(&%s);
        keep = <%s>::deserialize_eps(bytes(&buf)).unwrap();
    }
    churn();
    let r = keep;
    println!("{}", %s);
}
''' % (val, ty, read), 'reject'))
        out.append(('eps_move_buffer_while_borrowed_%s' % sname, C09_COMMON + '''
fn main() {
    let buf = buffer(&%s);
    let r = <%s>::deserialize_eps(bytes(&buf)).unwrap();
    let moved = buf;
    drop(moved);
    churn();
    println!("{}", %s);
}
''' % (val, ty, read), 'reject'))
        out.append(('eps_mutate_buffer_while_borrowed_%s' % sname, C09_COMMON + '''
fn main() {
    let mut buf = buffer(&%s);
    let r = <%s>::deserialize_eps(bytes(&buf)).unwrap();
    buf.clear();
    buf.shrink_to_fit();
    churn();
    println!("{}", %s);
}
''' % (val, ty, read), 'reject'))
        # -- MemCase: anything obtainable through safe code
        call = '<%s>::load_mem(&p).unwrap()' % ty
        if sname == 'field':
            out.append(('memcase_field_copy_field', C09_COMMON + '''
fn main() {
    let p = file(&%s, "f");
    let a = {
        let case = %s;
        case.a          // copies a borrowed field out of the case
    };
    let _ = std::fs::remove_file(&p);
    churn();
    println!("{}", a.iter().map(|x| *x as u64).sum::<u64>());
}
''' % (val, call), 'run'))
        else:
            out.append(('memcase_deref_copy_%s' % sname, C09_COMMON + '''
fn main() {
    let p = file(&%s, "d");
    let r = {
        let case = %s;
        let r = *std::ops::Deref::deref(&case);   // copies the ε-copy result out of the case
        r
    };
    let _ = std::fs::remove_file(&p);
    churn();
    println!("{}", %s);
}
''' % (val, call, read), 'run'))
            out.append(('memcase_asref_copy_%s' % sname, C09_COMMON + '''
fn main() {
    let p = file(&%s, "a");
    let r = {
        let case = %s;
        let r = *case.as_ref();
        r
    };
    let _ = std::fs::remove_file(&p);
    churn();
    println!("{}", %s);
}
''' % (val, call, read), 'run'))
        # references *to* the case's content with the case's own lifetime are sound
        out.append(('memcase_borrow_tied_to_case_%s' % sname, C09_COMMON + '''
fn main() {
    let p = file(&%s, "t");
    let keep;
    {
        let case = %s;
        keep = &*case;      // &'case DeserType: tied to the case
    }
    let _ = std::fs::remove_file(&p);
    churn();
    let r = keep;
    println!("{:?}", std::mem::size_of_val(r));
}
''' % (val, call), 'reject'))
    return out


# --------------------------------------------------------------------- C17
PTR = '''
/// A hand-written type that *claims* to be zero-copy (CopyType = Zero) but
/// holds a pointer and honestly reports IS_ZERO_COPY = false.
#[derive(Clone, Copy, Debug)]
pub struct Ptr(pub *const u8);
impl CopyType for Ptr { type Copy = Zero; }
impl MaxSizeOf for Ptr { fn max_size_of() -> usize { 8 } }
impl TypeHash for Ptr { fn type_hash(h: &mut impl core::hash::Hasher) { use core::hash::Hash; "Ptr".hash(h); } }
impl AlignHash for Ptr { fn align_hash(h: &mut impl core::hash::Hasher, o: &mut usize) { use core::hash::Hash; 8usize.hash(h); *o += 8; } }
impl SerializeInner for Ptr {
    type SerType = Self;
    const IS_ZERO_COPY: bool = false;
    const ZERO_COPY_MISMATCH: bool = false;
    fn _serialize_inner(&self, backend: &mut impl epserde::ser::WriteWithNames) -> epserde::ser::Result<()> {
        epserde::ser::helpers::serialize_zero(backend, self)
    }
}
impl DeserializeInner for Ptr {
    type DeserType<'a> = &'a Ptr;
    fn _deserialize_full_inner(backend: &mut impl epserde::deser::ReadWithPos) -> epserde::deser::Result<Self> {
        epserde::deser::helpers::deserialize_full_zero::<Self>(backend)
    }
    fn _deserialize_eps_inner<'a>(backend: &mut epserde::deser::SliceWithPos<'a>) -> epserde::deser::Result<Self::DeserType<'a>> {
        epserde::deser::helpers::deserialize_eps_zero::<Self>(backend)
    }
}
'''

RUNNER = '''
struct Count(Vec<u8>);
impl Write for Count {
    fn write(&mut self, b: &[u8]) -> std::io::Result<usize> { self.0.extend_from_slice(b); Ok(b.len()) }
    fn flush(&mut self) -> std::io::Result<()> { Ok(()) }
}
fn run<T: Serialize>(x: &T) {
    let mut sink = Count(Vec::new());
    let r = std::panic::catch_unwind(std::panic::AssertUnwindSafe(|| x.serialize(&mut sink).map_err(|e| format!("{:?}", e))));
    // header = 29 fixed bytes + length-prefixed type name
    let header = if sink.0.len() >= 37 { 37 + u64::from_ne_bytes(sink.0[29..37].try_into().unwrap()) as usize } else { usize::MAX };
    let value_bytes = sink.0.len().saturating_sub(header);
    println!("PROBE-RESULT panicked={} returned={:?} bytes={} value_bytes={}", r.is_err(), r.ok(), sink.0.len(), if sink.0.len() >= 37 { value_bytes } else { 0 });
}
'''


def _field_decl(v, fields, replace_at=None, repl=None):
    out = []
    for i, (n, t) in enumerate(fields):
        ty = repl if i == replace_at else t.rust().replace('d::', '')
        out.append((n, ty))
    return out


def c17_probes():
    """[(name, source, expectation)] – expectation 'reject-or-panic'."""
    out = []
    zero_defs = [d for d in A.ZERO_DEFS]
    deps = {d.name: d for d in zero_defs}

    def emit_dep_defs(d):
        """Definitions (valid, unmodified) of the zero-copy types d refers to."""
        seen = []

        def visit(t):
            if t.kind == 'user':
                dd = t.args[0]
                if dd.name not in [x.name for x in seen]:
                    for (_, ft) in dd.all_fields():
                        visit(ft)
                    seen.append(dd)
            for c in t.children():
                visit(c)
        for (_, ft) in d.all_fields():
            visit(ft)
        return '\n'.join(emit.emit_def(x).replace('d::', '') for x in seen if x is not d)

    BAD_FIELDS = [
        ('vec', 'Vec<u8>', False), ('string', 'String', False), ('boxslice', 'Box<[u8]>', False),
        ('deepstruct', 'DeepS', True), ('reprc_left_deep', 'ReprCDeep', True), ('option', 'Option<u8>', True),
        ('strref', "&'static str", True), ('ptr', 'Ptr', True), ('ptr_array', '[Ptr; 2]', True),
    ]
    EXTRA = '''
#[derive(Epserde, Debug, Clone, Copy)]
#[deep_copy]
pub struct DeepS { pub x: u32 }
#[derive(Epserde, Debug, Clone, Copy)]
#[repr(C)]
#[deep_copy]
pub struct ReprCDeep { pub x: u32 }
'''
    for d in zero_defs:
        if d.tparams:
            continue  # bounded parameters: instantiation-dependent, covered by the concrete ones
        base = emit_dep_defs(d)
        g = emit.generics_decl(d, with_defaults=False)
        gu = emit.generics_use(d)
        cargs = '<%s>' % ', '.join(const_lit(True if c.ty == 'bool' else ('x' if c.ty == 'char' else 3)) for c in d.cparams) if d.cparams else ''
        # 0. control: the unmodified definition with the same boilerplate must compile and serialise
        out.append(('control_valid_%s' % d.name, HEAD + PTR + EXTRA + RUNNER + base + '\n' + emit.emit_def(d).replace('d::', '') + '''
fn main() { let x: %s%s = unsafe { std::mem::MaybeUninit::zeroed().assume_init() }; run(&x); run(&x); }
''' % (d.name, cargs), 'control'))
        # 1. replace one field
        v0 = d.variants[0] if d.kind == 'struct' else next((v for v in d.variants if v.fields), None)
        if v0 is not None and v0.fields:
            for (bname, bty, copyable) in BAD_FIELDS:
                m = A.S(d.name, 'zero', [], reprs=list(d.reprs)) if False else None
                import copy as _c
                md = _c.copy(d)
                md.variants = [Variant(v.name, v.kind, list(v.fields)) for v in d.variants]
                vi = d.variants.index(v0)
                fn, _ = md.variants[vi].fields[0]
                md.variants[vi].fields[0] = (fn, T('prim', bty))   # rendered verbatim
                src = emit.emit_def(md).replace('d::', '')
                if not copyable:
                    src = src.replace(', Copy', '').replace('Clone', 'Clone')
                # a value: all fields defaulted through unsafe zeroed is UB for Vec; build explicitly
                out.append(('field_%s_in_%s' % (bname, d.name), HEAD + PTR + EXTRA + RUNNER + base + '\n' + src + '''
fn main() {
    // only reached if the definition compiles: serialise a zeroed value
    let x: %s%s = unsafe { std::mem::MaybeUninit::zeroed().assume_init() };
    run(&x);
    std::mem::forget(x);
}
''' % (d.name, cargs), 'reject-or-panic'))
        # 2. repr(C) dropped
        import copy as _c
        md = _c.copy(d)
        md.reprs = [r for r in d.reprs if r != 'C']
        out.append(('no_repr_c_%s' % d.name, HEAD + RUNNER + base + '\n' + emit.emit_def(md).replace('d::', '') + '''
fn main() { let x: %s%s = unsafe { std::mem::MaybeUninit::zeroed().assume_init() }; run(&x); }
''' % (d.name, cargs), 'reject-or-panic'))
        # 3. conflicting attribute
        src = emit.emit_def(d).replace('d::', '').replace('#[zero_copy]', '#[zero_copy]\n#[deep_copy]')
        out.append(('zero_and_deep_%s' % d.name, HEAD + RUNNER + base + '\n' + src + '''
fn main() { let x: %s%s = unsafe { std::mem::MaybeUninit::zeroed().assume_init() }; run(&x); }
''' % (d.name, cargs), 'reject-or-panic'))
    # layer 2 in sequences
    out.append(('vec_of_ptr', HEAD + PTR + RUNNER + '''
fn main() { let x: Vec<Ptr> = vec![Ptr(std::ptr::null()), Ptr(8 as *const u8)]; run(&x); }
''', 'reject-or-panic'))
    out.append(('boxed_slice_of_ptr', HEAD + PTR + RUNNER + '''
fn main() { let x: Box<[Ptr]> = vec![Ptr(std::ptr::null())].into_boxed_slice(); run(&x); }
''', 'reject-or-panic'))
    out.append(('array_of_ptr', HEAD + PTR + RUNNER + '''
fn main() { let x: [Ptr; 3] = [Ptr(std::ptr::null()); 3]; run(&x); }
''', 'reject-or-panic'))
    out.append(('ptr_itself', HEAD + PTR + RUNNER + '''
fn main() { let x = Ptr(16 as *const u8); run(&x); }
''', 'reject-or-panic'))
    out.append(('slice_of_ptr', HEAD + PTR + RUNNER + '''
fn main() { let v = vec![Ptr(std::ptr::null()), Ptr(8 as *const u8)]; let x: &[Ptr] = &v; run(&x); }
''', 'reject-or-panic'))
    out.append(('iter_of_ptr', HEAD + PTR + RUNNER + '''
fn main() { let v = vec![Ptr(std::ptr::null()), Ptr(8 as *const u8)]; let x = SerIter::from(v.iter()); run(&x); }
''', 'reject-or-panic'))
    out.append(('holder_of_iter_of_ptr', HEAD + PTR + RUNNER + '''
#[derive(Epserde, Debug, Clone)]
struct Holder<A> { a: A, n: u8 }
fn main() { let v = vec![Ptr(std::ptr::null())]; let x = Holder { a: SerIter::from(v.iter()), n: 1 }; run(&x); }
''', 'reject-or-panic'))
    # layer 2, built-in deep-copy constructors that are Copy: a hand-written wrapper declared zero-copy whose
    # verified flag is, as in derived code, the conjunction of its fields' flags (but without the compile-time bound)
    HAND = '''
#[derive(Clone, Copy, Debug)]
#[repr(C)]
pub struct Hand<F>(pub F);
impl<F> CopyType for Hand<F> { type Copy = Zero; }
impl<F> MaxSizeOf for Hand<F> { fn max_size_of() -> usize { core::mem::align_of::<Self>() } }
impl<F> TypeHash for Hand<F> { fn type_hash(h: &mut impl core::hash::Hasher) { use core::hash::Hash; "Hand".hash(h); } }
impl<F> AlignHash for Hand<F> { fn align_hash(h: &mut impl core::hash::Hasher, o: &mut usize) { use core::hash::Hash; core::mem::align_of::<Self>().hash(h); *o += core::mem::size_of::<Self>(); } }
impl<F: SerializeInner + Copy + 'static> SerializeInner for Hand<F> {
    type SerType = Self;
    const IS_ZERO_COPY: bool = F::IS_ZERO_COPY;
    const ZERO_COPY_MISMATCH: bool = false;
    fn _serialize_inner(&self, backend: &mut impl epserde::ser::WriteWithNames) -> epserde::ser::Result<()> {
        epserde::ser::helpers::serialize_zero(backend, self)
    }
}
'''
    static_bytes = 'static B: [u8; 3] = [1, 2, 3];'
    for (hname, hty, hval) in [
        ('option', 'Option<u8>', 'Some(3)'), ('option_none', 'Option<u64>', 'None'), ('bound', 'core::ops::Bound<u8>', 'core::ops::Bound::Included(1)'),
        ('controlflow', 'core::ops::ControlFlow<u8, u16>', 'core::ops::ControlFlow::Continue(7)'), ('slice_ref', "&'static [u8]", '&B[..]'),
        ('array_of_option', '[Option<u8>; 2]', '[Some(1), None]'), ('option_of_array', 'Option<[u16; 2]>', 'Some([1, 2])'),
        ('nested_hand', 'Hand<Option<u8>>', 'Hand(Some(1))'), ('array_of_slice_ref', "[&'static [u8]; 1]", '[&B[..]]'),
    ]:
        for (wname, wexpr) in [('bare', 'x'), ('vec', 'vec![x; 2]'), ('array', '[x; 2]')]:
            out.append(('hand_%s_%s' % (hname, wname), HEAD + RUNNER + HAND + static_bytes + '''
fn main() { let x: Hand<%s> = Hand(%s); let y = %s; run(&y); }
''' % (hty, hval, wexpr), 'reject-or-panic'))
    out.append(('control_valid_hand', HEAD + RUNNER + HAND + '''
fn main() { run(&vec![Hand([1u8, 2]); 3]); run(&[Hand(Hand((1u16, 2u16))); 2]); }
''', 'control'))
    # controls: valid definitions must serialise (the probe harness itself works)
    out.append(('control_valid_zero_copy', HEAD + RUNNER + '''
#[derive(Epserde, Debug, Clone, Copy)]
#[zero_copy]
#[repr(C)]
struct Good { a: u64, b: u8 }
fn main() { run(&Good { a: 1, b: 2 }); run(&vec![Good { a: 1, b: 2 }; 3]); }
''', 'control'))
    return out


# --------------------------------------------------------------------- C05
C05_RUN = '''
fn check<T>(x: &T, label: &str)
where
    T: Serialize + Deserialize + std::fmt::Debug,
    for<'a> <T as DeserializeInner>::DeserType<'a>: std::fmt::Debug,
{
    let mut cur = <AlignedCursor<maligned_a64::A64>>::new();
    x.serialize(&mut cur).expect("serialize");
    cur.set_position(0);
    let full = T::deserialize_full(&mut cur).expect("deserialize_full");
    let eps = T::deserialize_eps(cur.as_bytes()).expect("deserialize_eps");
    let (a, b, c) = (format!("{:?}", x), format!("{:?}", full), format!("{:?}", eps));
    if a != b || a != c {
        println!("PROBE-FAIL {}: original {} full {} eps {}", label, a, b, c);
        std::process::exit(3);
    }
    println!("PROBE-OK {} {}", label, a.len());
}
mod maligned_a64 {
    // AlignedCursor's default alignment type is enough for these probes
    pub use epserde::deser::MemoryAlignment as A64;
}
'''


def c05_probes():
    """[(name, source)] – every program must compile, run, and print PROBE-OK."""
    D = '#[derive(Epserde, Debug, Clone, PartialEq)]'
    Z = '#[derive(Epserde, Debug, Clone, Copy, PartialEq)]\n#[zero_copy]\n#[repr(C)]'
    shapes = [
        ('struct_named', D + ' struct S { a: u32, s: String, v: Vec<u64> }', 'S { a: 1, s: "x".into(), v: vec![1, 2] }'),
        ('struct_tuple', D + ' struct S(u8, Vec<u16>, Option<String>);', 'S(1, vec![2, 3], Some("y".into()))'),
        ('struct_unit', D + ' #[deep_copy] struct S;', 'S'),
        ('struct_eps_param', D + ' struct S<A> { a: A, n: u8 }', 'S { a: vec![1u32, 2, 3], n: 4 }'),
        ('struct_eps_param_inline_bound', D + ' struct S<A: Clone + std::fmt::Debug> { a: A, n: u8 }', 'S { a: vec![1u32, 2, 3], n: 4 }'),
        ('struct_eps_param_where_clause', D + ' struct S<A> where A: Clone { a: A, n: u8 }', 'S { a: vec![1u32, 2, 3], n: 4 }'),
        ('struct_internal_param_where_clause', D + ' struct S<B> where B: Clone { b: Vec<B>, n: u8 }', 'S { b: vec![1u16, 2], n: 4 }'),
        ('struct_internal_param_inline_bound', D + ' struct S<B: ZeroCopy> { b: Vec<B>, n: u8 }', 'S { b: vec![1u16, 2], n: 4 }'),
        ('struct_phantom_param', D + ' struct S<P> { x: u8, p: PhantomData<P> }', 'S::<String> { x: 3, p: PhantomData }'),
        ('struct_const_param_default', D + ' struct S<const N: usize = 2> { a: [u16; N] }', 'S::<3> { a: [1, 2, 3] }'),
        ('struct_const_bool_param', D + ' #[deep_copy] struct S<const B: bool> { a: u8 }', 'S::<true> { a: 1 }'),
        ('struct_defaulted_type_param', D + ' struct S<A = Vec<u8>> { a: A }', 'S { a: vec![1u8, 2] }'),
        ('struct_two_eps_phantom_const', D + ' struct S<A, B, P, const N: usize> { a: A, b: B, p: PhantomData<P>, c: [u8; N] }',
         'S::<Vec<u64>, String, u8, 2> { a: vec![1], b: "z".into(), p: PhantomData, c: [1, 2] }'),
        ('struct_param_after_const', D + ' struct S<A, const N: usize> { c: [u8; N], a: A }', 'S::<Vec<u32>, 1> { c: [9], a: vec![1, 2] }'),
        ('struct_type_param_after_const', D + ' struct S<const N: usize, A> { c: [u8; N], a: A }', 'S::<1, Vec<u32>> { c: [9], a: vec![1, 2] }'),
        ('struct_nested_user_types', D + ' struct I { v: Vec<u8> } ' + D + ' struct S<A> { i: I, a: A, o: Option<I> }',
         'S { i: I { v: vec![1] }, a: I { v: vec![2, 3] }, o: None }'),
        ('enum_mixed_variants', D + ' enum E { U, T(u32, String), S { a: Vec<u16>, b: u8 } }', 'E::S { a: vec![1, 2], b: 3 }'),
        ('enum_eps_param', D + ' enum E<A> { N, O(A), T { a: A, n: u8 } }', 'E::T { a: vec![1u64, 2], n: 1 }'),
        ('enum_eps_param_inline_bound', D + ' enum E<A: Clone> { N, O(A) }', 'E::O(vec![1u64, 2])'),
        ('enum_internal_param_where_clause', D + ' enum E<B> where B: Clone { N, V(Vec<B>) }', 'E::V(vec![1u8, 2])'),
        ('enum_const_param', D + ' #[deep_copy] enum E<const K: u8> { A, B }', 'E::<7>::B'),
        ('enum_single_variant', D + ' enum E { Only { x: String } }', 'E::Only { x: "q".into() }'),
        ('zero_struct', Z + ' struct S { a: u8, b: u64 }', 'S { a: 1, b: 2 }'),
        ('zero_struct_align', Z + ' #[repr(align(32))] struct S { a: u8 }', 'S { a: 1 }'),
        ('zero_tuple_struct', Z + ' struct S(u16, u16);', 'S(1, 2)'),
        ('zero_unit_struct', Z + ' struct S;', 'S'),
        ('zero_generic_struct', Z + ' struct S<A: ZeroCopy> { a: A, b: u8 }', 'S { a: 5u32, b: 1 }'),
        ('zero_generic_enum', Z + ' enum E<A: ZeroCopy> { N, O(A) }', 'E::O(5u32)'),
        ('zero_enum_fieldless', Z + ' enum E { A, B, C }', 'E::B'),
        ('zero_enum_payload', Z + ' enum E { A, B(u8), C { x: u64, y: u16 } }', 'E::C { x: 1, y: 2 }'),
        ('zero_enum_payload_repr_u8', Z + ' #[repr(u8)] enum E { A, B(u16, u8) }', 'E::B(1, 2)'),
        ('zero_in_vec_in_struct', Z + ' struct Zs { a: u32, b: u8 } ' + D + ' struct S<A> { a: A, z: Zs, zs: Vec<Zs> }',
         'S { a: vec![Zs { a: 1, b: 2 }], z: Zs { a: 3, b: 4 }, zs: vec![Zs { a: 5, b: 6 }; 3] }'),
        ('deep_copy_repr_c', D + ' #[deep_copy] #[repr(C)] struct S { a: u8, b: u16 }', 'S { a: 1, b: 2 }'),
    ]
    out = []
    for name, defs, value in shapes:
        out.append((name, HEAD + C05_RUN + '\n' + defs + '\n\nfn main() { let x = %s; check(&x, "%s"); }\n' % (value, name)))
    return out


# --------------------------------------------------------------------- C08
def c08_probes():
    """Compile-only probes of the conditions of `unsafe impl Send/Sync for MemCase`:
    [(name, source, expectation)], expectation ∈ compile | reject."""
    base = HEAD + 'use std::rc::Rc;\nuse std::cell::Cell;\nfn need_send<T: Send>() {}\nfn need_sync<T: Sync>() {}\n'
    return [
        ('memcase_of_rc_is_not_send', base + 'fn main() { need_send::<MemCase<Rc<u8>>>(); }\n', 'reject'),
        ('memcase_of_rc_is_not_sync', base + 'fn main() { need_sync::<MemCase<Rc<u8>>>(); }\n', 'reject'),
        ('memcase_of_cell_is_not_sync', base + 'fn main() { need_sync::<MemCase<Cell<u8>>>(); }\n', 'reject'),
        ('memcase_of_slice_is_send_sync', base + "fn main() { need_send::<MemCase<&'static [u64]>>(); need_sync::<MemCase<&'static [u64]>>(); need_send::<MemCase<Vec<String>>>(); }\n", 'compile'),
        ('memcase_of_cell_is_send', base + 'fn main() { need_send::<MemCase<Cell<u8>>>(); }\n', 'compile'),
    ]
