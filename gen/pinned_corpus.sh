#!/bin/bash
# Append golden-corpus lines for roots of universe A that have none yet, written by the
# PINNED build (709c463 + the hook commit 54db186) in a scratch worktree outside /repo and /verif.
set -e
S=/root/scratch_corpus
rm -rf $S; mkdir -p $S
git -C /repo worktree add -q $S/pinned 54db186
rsync -a --exclude target /verif/harness/ $S/h/
rsync -a /verif/gen/ $S/g/
sed -i "s|HARNESS = .*|HARNESS = '$S/h'|" $S/g/mkuniverse.py
VERIF_PINNED_CORPUS=1 python3 $S/g/mkuniverse.py | tail -1
cd $S/h && sed -i "s|/repo/|$S/pinned/|g" Cargo.toml
RUSTFLAGS="--cfg epserde_verif" cargo build --offline -p epv 2>&1 | tail -1
./target/debug/epv corpus-write --out $S/new.tsv 2>&1 | grep "^corpus"
python3 - <<PY
old=open('/verif/corpus/golden.tsv').read().splitlines()
have=set(l.split('\t')[0] for l in old)
new=[l for l in open('$S/new.tsv').read().splitlines() if l.split('\t')[0] not in have]
print('new lines:', len(new), 'for', len(set(l.split('\t')[0] for l in new)), 'roots')
if new:
    open('/verif/corpus/golden.tsv','a').write('\n'.join(new)+'\n')
PY
git -C /repo worktree remove --force $S/pinned
rm -rf $S
git -C /repo worktree prune
