"""Rust emission: definitions, glue impls, root tables, ε-copy type assertions."""

from tyexpr import *

CONST_KIND = {'usize': 'Usize', 'bool': 'Bool', 'u8': 'U8', 'i32': 'I32', 'char': 'Char'}
CONST_CAST = {'usize': '%s as u64', 'bool': '%s', 'u8': '%s', 'i32': '%s', 'char': '%s'}


def generics_decl(d, extra_bound=None, with_defaults=False, role_bounds=None):
    """`<A: X + Y, const N: usize>` for an impl (or the declaration), in declaration order."""
    parts = {}
    for p in d.tparams:
        b = list(p.bounds)
        if role_bounds is not None:
            b = [role_bounds(p.name)] + b
        elif extra_bound:
            b = [extra_bound] + b
        s = p.name + (': ' + ' + '.join(b) if b else '')
        if with_defaults and p.default is not None:
            s += ' = ' + p.default.rust()
        parts[p.name] = s
    for c in d.cparams:
        s = 'const %s: %s' % (c.name, c.ty)
        if with_defaults and c.default is not None:
            s += ' = ' + const_lit(c.default)
        parts[c.name] = s
    order = d.param_order()
    return '<%s>' % ', '.join(parts[n] for n in order) if order else ''


def generics_use(d):
    order = d.param_order()
    return '<%s>' % ', '.join(order) if order else ''


def where_clause(d):
    return (' where ' + ', '.join(d.where)) if d.where else ''


def field_ty(t):
    return t.rust()


def emit_def(d):
    """The type definition with its derives and attributes."""
    out = []
    der = ['Epserde', 'Debug', 'Clone'] + (['Copy'] if d.copy == 'zero' else []) + d.derives
    out.append('#[derive(%s)]' % ', '.join(der))
    if d.copy == 'zero':
        out.append('#[zero_copy]')
    elif d.copy == 'deep':
        out.append('#[deep_copy]')
    for r in d.reprs:
        out.append('#[repr(%s)]' % r)
    g = generics_decl(d, with_defaults=True)
    w = where_clause(d)
    if d.kind == 'struct':
        v = d.variants[0]
        if v.kind == 'named':
            fs = ' '.join('pub %s: %s,' % (n, field_ty(t)) for (n, t) in v.fields)
            out.append('pub struct %s%s%s { %s }' % (d.name, g, w, fs))
        elif v.kind == 'tuple':
            fs = ', '.join('pub %s' % field_ty(t) for (_, t) in v.fields)
            out.append('pub struct %s%s(%s)%s;' % (d.name, g, fs, w))
        else:
            out.append('pub struct %s%s%s;' % (d.name, g, w))
    else:
        vs = []
        for v in d.variants:
            if v.kind == 'named':
                vs.append('%s { %s }' % (v.name, ' '.join('%s: %s,' % (n, field_ty(t)) for (n, t) in v.fields)))
            elif v.kind == 'tuple':
                vs.append('%s(%s)' % (v.name, ', '.join(field_ty(t) for (_, t) in v.fields)))
            else:
                vs.append(v.name)
        out.append('pub enum %s%s%s { %s }' % (d.name, g, w, ', '.join(vs)))
    return '\n'.join(out)


def _self(d):
    return d.name + generics_use(d)


def repr_token_string(r):
    """What `tokens.to_string()` yields inside the derive for `repr(r)`."""
    return r


def emit_hasty(d):
    g = generics_decl(d, extra_bound='HasTy')
    w = where_clause(d)
    consts = ', '.join('("%s".to_string(), ConstVal::%s(%s))' % (c.name, CONST_KIND[c.ty], CONST_CAST[c.ty] % c.name)
                       for c in d.cparams)
    vs = []
    for v in d.variants:
        fs = ', '.join('Field { name: "%s".to_string(), ty: <%s as HasTy>::ty(), eps: %s }' % (
            n, t.rust(), 'true' if (d.copy != 'zero' and t.kind == 'param') else 'false') for (n, t) in v.fields)
        vs.append('Variant { name: "%s".to_string(), kind: VKind::%s, fields: vec![%s] }' % (
            v.name, {'named': 'Named', 'tuple': 'Tuple', 'unit': 'Unit'}[v.kind], fs))
    if d.copy == 'zero':
        if d.kind == 'struct':
            offs = ', '.join('core::mem::offset_of!(Self, %s)' % n for (n, _) in d.variants[0].fields)
        else:
            offs = ''
        layout = 'Some(CLayout { size: core::mem::size_of::<Self>(), align: core::mem::align_of::<Self>(), offsets: vec![%s] })' % offs
    else:
        layout = 'None'
    reprs = ', '.join('"%s".to_string()' % repr_token_string(r) for r in d.reprs)
    return '''impl%s HasTy for %s%s {
    fn ty() -> Ty {
        Ty::User(Rc::new(User {
            name: "%s".to_string(), path: module_path!().to_string(), is_enum: %s, zero: %s,
            reprs: vec![%s],
            consts: vec![%s],
            variants: vec![%s],
            layout: %s,
        }))
    }
}''' % (g, _self(d), w, d.name, 'true' if d.kind == 'enum' else 'false', 'true' if d.copy == 'zero' else 'false',
        reprs, consts, ',\n                '.join(vs), layout)


def _ctor(d, v, exprs):
    """Construction expression of variant v with the given field expressions."""
    head = d.name if d.kind == 'struct' else '%s::%s' % (d.name, v.name)
    if v.kind == 'named':
        return '%s { %s }' % (head, ', '.join('%s: %s' % (n, e) for ((n, _), e) in zip(v.fields, exprs)))
    if v.kind == 'tuple':
        return '%s(%s)' % (head, ', '.join(exprs))
    return head


def _pattern(d, v):
    head = '%s::%s' % (d.name, v.name)
    names = ['x%d' % i for i in range(len(v.fields))]
    if v.kind == 'named':
        return '%s { %s }' % (head, ', '.join('%s: %s' % (n, x) for ((n, _), x) in zip(v.fields, names))), names
    if v.kind == 'tuple':
        return '%s(%s)' % (head, ', '.join(names)), names
    return head, names


def emit_glue(d):
    g = generics_decl(d, extra_bound='Glue')
    w = where_clause(d)
    if d.kind == 'struct':
        v = d.variants[0]
        exprs = ['Glue::from_val(&f[%d])' % i for i in range(len(v.fields))]
        from_val = 'let f = v.fields(); let _ = f; %s' % _ctor(d, v, exprs)
        walk = 'Val::Struct(vec![%s])' % ', '.join('self.%s.walk(w)' % n for (n, _) in v.fields)
    else:
        arms = []
        warms = []
        for i, v in enumerate(d.variants):
            exprs = ['Glue::from_val(&f[%d])' % j for j in range(len(v.fields))]
            arms.append('%d => %s,' % (i, _ctor(d, v, exprs)))
            pat, names = _pattern(d, v)
            warms.append('%s => Val::Variant(%d, vec![%s]),' % (pat, i, ', '.join('%s.walk(w)' % x for x in names)))
        from_val = 'let (i, f) = v.variant(); let _ = f; match i { %s _ => unreachable!() }' % ' '.join(arms)
        walk = 'match self { %s }' % ' '.join(warms)
    return '''impl%s Glue for %s%s {
    fn from_val(v: &Val) -> Self { %s }
    #[allow(unused_variables)]
    fn walk(&self, w: &mut Walker) -> Val { %s }
}''' % (g, _self(d), w, from_val, walk)


def emit_epswalk(d):
    """Only for deep-copy definitions (zero-copy ones come back as `&T`)."""
    if d.copy == 'zero':
        return ''

    def rb(pn):
        r = d.role(pn)
        return {'eps': 'EpsWalk', 'internal': 'Glue', 'phantom': 'HasTy'}[r]
    g = generics_decl(d, role_bounds=rb)
    w = where_clause(d)

    def call(t, x):
        return ('%s.eps_val(w)' if t.kind == 'param' else '%s.walk(w)') % x
    if d.kind == 'struct':
        v = d.variants[0]
        body = 'Val::Struct(vec![%s])' % ', '.join(call(t, 'self.' + n) for (n, t) in v.fields)
    else:
        warms = []
        for i, v in enumerate(d.variants):
            pat, names = _pattern(d, v)
            warms.append('%s => Val::Variant(%d, vec![%s]),' % (
                pat, i, ', '.join(call(t, x) for ((_, t), x) in zip(v.fields, names))))
        body = 'match self { %s }' % ' '.join(warms)
    return '''impl%s EpsWalk for %s%s {
    #[allow(unused_variables)]
    fn eps_val(&self, w: &mut Walker) -> Val { %s }
}''' % (g, _self(d), w, body)


PRELUDE = '''#![allow(dead_code, unused_imports, non_camel_case_types, clippy::all)]
use epserde::prelude::*;
use rt::glue::*;
use model::*;
use std::rc::Rc;
use std::marker::PhantomData;
use std::num::*;
use std::ops::{Bound, ControlFlow, Range, RangeFrom, RangeFull, RangeInclusive, RangeTo, RangeToInclusive};
'''


def emit_modules(defs, glue='full'):
    """Group definitions by module; glue ∈ full | hasty."""
    mods = {}
    for d in defs:
        mods.setdefault(d.module, []).append(d)
    out = []
    for m, ds in mods.items():
        body = []
        for d in ds:
            body.append(emit_def(d))
            body.append(emit_hasty(d))
            if glue == 'full':
                body.append(emit_glue(d))
                body.append(emit_epswalk(d))
        inner = '\n'.join(body)
        if m:
            out.append('pub mod %s {\n    use super::*;\n%s\n}' % (m, inner))
        else:
            out.append(inner)
    return '\n\n'.join(out)


def emit_roots(roots, prefix='R', table='ROOTS'):
    out = []
    names = []
    for i, t in enumerate(roots):
        out.append('rt::root!(%s%d, %sC%d, %s, "%s");' % (prefix, i, prefix, i, t.rust(), t.rust()))
        names.append('&%s%d' % (prefix, i))
    out.append('pub static %s: &[&dyn rt::Root] = &[%s];' % (table, ', '.join(names)))
    return '\n'.join(out)


def emit_hash_roots(roots, prefix='H', table='HASH_ROOTS'):
    out = []
    names = []
    for i, t in enumerate(roots):
        out.append('rt::hash_root!(%s%d, %s, "%s");' % (prefix, i, t.rust(), t.rust()))
        names.append('&%s%d' % (prefix, i))
    out.append('pub static %s: &[&dyn rt::HashRoot] = &[%s];' % (table, ', '.join(names)))
    return '\n'.join(out)


def emit_eps_asserts(roots, prefix='a'):
    """rustc checks the derived DeserType against the documented rule."""
    out = []
    for i, t in enumerate(roots):
        out.append("pub fn %s%d<'a>(x: epserde::deser::DeserType<'a, %s>) -> %s { x }" % (prefix, i, t.rust(), t.eps("'a")))
        out.append("pub fn s%s%d(x: <%s as epserde::ser::SerializeInner>::SerType) -> %s { x }" % (prefix, i, t.rust(), t.rust()))
    return '\n'.join(out)
