"""Universe A: the fixed ("golden") set of definitions and root types.

Identical for every seed; it defines the corpus of C06.  Order matters: roots
are identified by their index-free Rust type expression, but the corpus index
is keyed by that expression, so appending is always safe.
"""

import random
from tyexpr import *

M = 'd'   # module of the definitions


def S(name, copy, fields, kind='named', **kw):
    return Def(name, 'struct', copy, [Variant('', kind, fields)], module=M, **kw)


def E(name, copy, variants, **kw):
    return Def(name, 'enum', copy, [Variant(n, k, f) for (n, k, f) in variants], module=M, **kw)


u8, u16, u32, u64, u128, usize = P('u8'), P('u16'), P('u32'), P('u64'), P('u128'), P('usize')
i8, i16, i32, i64 = P('i8'), P('i16'), P('i32'), P('i64')
f32, f64, bool_, char_ = P('f32'), P('f64'), P('bool'), P('char')

# ---------------------------------------------------------------- zero-copy
Z1 = S('Z1', 'zero', [('a', u8), ('b', u32)], reprs=['C'])
Z2 = S('Z2', 'zero', [('a', u64), ('b', u16), ('c', u8)], reprs=['C'])
Z3 = S('Z3', 'zero', [('0', u16), ('1', u16)], kind='tuple', reprs=['C'])
Z4 = S('Z4', 'zero', [], kind='unit', reprs=['C'])
Z5 = S('Z5', 'zero', [('a', Arr(u16, 3)), ('b', u8)], reprs=['C'])
Z6 = S('Z6', 'zero', [('z', U(Z1)), ('t', Tup(u32, 2)), ('k', i8)], reprs=['C'])
Z7 = S('Z7', 'zero', [('a', u8)], reprs=['C', 'align(16)'])
Z8 = S('Z8', 'zero', [('a', Pm('A')), ('b', u8)], reprs=['C'], tparams=[TP('A', ['ZeroCopy'])])
Z9 = S('Z9', 'zero', [('a', Arr(u8, 'N')), ('n', u16)], reprs=['C'], cparams=[CP('N', 'usize')])
Z10 = S('Z10', 'zero', [('r', Rg('RangeTo', u32)), ('f', RFULL), ('u', UNIT), ('p', Ph(u64)), ('q', Rg('RangeToInclusive', i16))], reprs=['C'])
Z11 = S('Z11', 'zero', [('a', u128), ('b', u8)], reprs=['C'])
Z12 = S('Z12', 'zero', [('a', u32), ('b', u32), ('c', u32)], reprs=['C'])
Z13 = S('Z13', 'zero', [('x', f32), ('y', f64), ('c', char_), ('b', bool_), ('n', P('NonZeroU16')), ('m', P('NonZeroI64'))], reprs=['C'])
Z14 = S('Z14', 'zero', [('0', u8)], kind='tuple', reprs=['C'])
Z15 = S('Z15', 'zero', [('p', Ph(Pm('P'))), ('v', u16)], reprs=['C'], tparams=[TP('P', ['Copy', "'static"])])
Z16 = S('Z16', 'zero', [], kind='named', reprs=['C'], cparams=[CP('N', 'usize', 10)])
Z17 = S('Z17', 'zero', [('a', u8), ('z', U(Z7)), ('b', u8)], reprs=['C'])
Z18 = S('Z18', 'zero', [('a', Arr(U(Z1), 2)), ('b', Tup(u8, 3)), ('c', Arr(u64, 0))], reprs=['C'])
Z19 = S('Z19', 'zero', [('flag', bool_), ('k', u8)], reprs=['C'], cparams=[CP('B', 'bool'), CP('C', 'char')])
ZE1 = E('ZE1', 'zero', [('A', 'unit', []), ('B', 'unit', []), ('C', 'unit', [])], reprs=['C'])
ZE2 = E('ZE2', 'zero', [('P', 'unit', []), ('Q', 'unit', [])], reprs=['C'])
ZE3 = E('ZE3', 'zero', [('A', 'unit', []), ('B', 'tuple', [('0', u8)]), ('C', 'named', [('x', u64), ('y', u16)])], reprs=['C'])
ZE4 = E('ZE4', 'zero', [('N', 'unit', []), ('M', 'tuple', [('0', u16), ('1', u8)]), ('L', 'named', [('z', U(Z1))])], reprs=['C', 'u8'])
ZE5 = E('ZE5', 'zero', [('Only', 'tuple', [('0', u32)])], reprs=['C'])
Z20 = S('Z20', 'zero', [('e', U(ZE3)), ('k', u8), ('f', U(ZE2))], reprs=['C'])

ZERO_DEFS = [Z1, Z2, Z3, Z4, Z5, Z6, Z7, Z8, Z9, Z10, Z11, Z12, Z13, Z14, Z15, Z16, Z17, Z18, Z19,
             ZE1, ZE2, ZE3, ZE4, ZE5, Z20]

# ---------------------------------------------------------------- deep-copy
D1 = S('D1', 'none', [('a', u32), ('s', STR), ('v', Vec(u64))])
D2 = S('D2', 'none', [('a', Pm('A')), ('n', u32)], tparams=[TP('A')])
D3 = S('D3', 'none', [('a', Pm('A')), ('b', Pm('B')), ('c', Vec(u8))], tparams=[TP('A'), TP('B')])
D4 = S('D4', 'none', [('v', Vec(Pm('A'))), ('k', u8)], tparams=[TP('A', ['ZeroCopy'])])
D5 = S('D5', 'none', [('x', u8), ('p', Ph(Pm('P'))), ('s', STR)], tparams=[TP('P')])
D6 = S('D6', 'none', [('a', Pm('A')), ('b', Arr(i32, 'Q'))], tparams=[TP('A', ['PartialEq'], default=usize)],
       cparams=[CP('Q', 'usize', 3)], derives=['PartialEq'])
D7 = S('D7', 'none', [('0', STR), ('1', Vec(U(Z1))), ('2', Opt(u8))], kind='tuple')
D8 = S('D8', 'deep', [], kind='unit')
D9 = S('D9', 'none', [('z', U(Z1)), ('zs', Vec(U(Z2))), ('o', Opt(U(Z3))), ('t', Tup(u16, 3))])
D10 = S('D10', 'deep', [('a', u8), ('b', u16)], reprs=['C'])
D11 = S('D11', 'none', [('a', Pm('A')), ('b', Vec(Pm('B')))], tparams=[TP('A'), TP('B')], where=['B: Clone'])
D12 = S('D12', 'none', [('inner', U(D1)), ('more', U(D2, [Vec(u8)])), ('k', u16)])
D13 = S('D13', 'none', [('a', Arr(STR, 2)), ('b', Arr(Vec(u8), 0)), ('c', Bx(STR)), ('d', BOXSTR), ('e', Bx(u32))])
D14 = S('D14', 'none', [('r', Rg('Range', u32)), ('ri', Rg('RangeInclusive', i64)), ('b', Bd(u8)),
                        ('c', Fl(u8, STR)), ('rf', Rg('RangeFrom', u16))])
D15 = S('D15', 'none', [('0', Pm('A')), ('1', u8)], kind='tuple', tparams=[TP('A')])
D16 = S('D16', 'none', [('a', Pm('A')), ('x', Arr(u16, 'N'))], tparams=[TP('A')],
        cparams=[CP('N', 'usize'), CP('B', 'bool')])
D17 = S('D17', 'none', [('a', Pm('A')), ('p', Ph(Pm('P'))), ('q', Ph(UNIT))], tparams=[TP('P'), TP('A')])
D18 = S('D18', 'deep', [('a', u8), ('b', u8)])
D19 = S('D19', 'none', [('a', Pm('A')), ('b', Pm('B')), ('c', Pm('C'))], tparams=[TP('A'), TP('B'), TP('C')])
D20 = S('D20', 'none', [('u', UNIT), ('f', RFULL), ('p', Ph(STR)), ('e', Arr(u8, 0)), ('z', U(Z4))])
D21 = S('D21', 'none', [('o', Opt(Vec(U(Z1)))), ('v', Vec(Opt(STR))), ('w', Vec(Vec(u16)))])
D22 = S('D22', 'none', [('a', Pm('A'))], tparams=[TP('A', ['Clone', 'core::fmt::Debug'])])
E1 = E('E1', 'none', [('A', 'unit', []), ('B', 'unit', []), ('C', 'unit', [])])
E2 = E('E2', 'none', [('U', 'unit', []), ('T', 'tuple', [('0', u32), ('1', STR)]),
                      ('S', 'named', [('a', Vec(u16)), ('b', U(Z1))])])
E3 = E('E3', 'none', [('None', 'unit', []), ('One', 'tuple', [('0', Pm('A'))]),
                      ('Two', 'named', [('a', Pm('A')), ('n', u8)])], tparams=[TP('A')])
E4 = E('E4', 'none', [('V', 'tuple', [('0', Vec(Pm('A')))]), ('W', 'tuple', [('0', Ph(Pm('P')))]), ('X', 'unit', [])],
       tparams=[TP('A', ['ZeroCopy']), TP('P')])
E5 = E('E5', 'deep', [('Only', 'named', [('x', u64)])])
E6 = E('E6', 'none', [('V0', 'unit', []), ('V1', 'tuple', [('0', u8)]), ('V2', 'tuple', [('0', u16), ('1', u16)]),
                      ('V3', 'named', [('s', STR)]), ('V4', 'tuple', [('0', Opt(u8))]), ('V5', 'unit', [])])
E7 = E('E7', 'none', [('A', 'tuple', [('0', U(E1))]), ('B', 'tuple', [('0', Opt(U(E2)))]), ('C', 'named', [('z', U(ZE3))])])
E8 = E('E8', 'none', [('L', 'tuple', [('0', Pm('A'))]), ('R', 'tuple', [('0', Pm('B'))])], tparams=[TP('A'), TP('B')])
E9 = E('E9', 'deep', [('A', 'unit', []), ('B', 'unit', [])], cparams=[CP('K', 'u8')])

Z21 = S('Z21', 'zero', [('a', u32)], reprs=['C', 'align(64)'])
Z22 = S('Z22', 'zero', [('r', Rg('RangeTo', U(Z12))), ('k', u8)], reprs=['C'])
D23 = S('D23', 'none', [('x', Arr(u8, 'N')), ('a', Pm('A'))], tparams=[TP('A')], cparams=[CP('N', 'usize')], order=['N', 'A'])
D24 = S('D24', 'none', [('0', Pm('A')), ('1', Arr(u16, 'N')), ('2', Pm('B'))], kind='tuple', tparams=[TP('A'), TP('B')],
        cparams=[CP('N', 'usize')], order=['A', 'N', 'B'])
E10 = E('E10', 'none', [('L', 'tuple', [('0', Pm('A'))]), ('M', 'named', [('k', Arr(u8, 'N')), ('b', Pm('B'))])], tparams=[TP('A'), TP('B', ['Clone'])],
        cparams=[CP('N', 'usize')], order=['A', 'N', 'B'])
ZE6 = E('ZE6', 'zero', [('A', 'unit', []), ('B', 'tuple', [('0', u8)]), ('C', 'named', [('x', u8), ('y', u8)])], reprs=['C'])
ZE7 = E('ZE7', 'zero', [('A', 'tuple', [('0', u32)]), ('B', 'unit', [])], reprs=['C', 'align(16)'])
ZE8 = E('ZE8', 'zero', [('A', 'tuple', [('0', u16)]), ('B', 'unit', [])], reprs=['C', 'u64'])
Z24 = S('Z24', 'zero', [('a', u32)], reprs=['C', 'align(128)'])
D25 = S('D25', 'none', [('a', Pm('A')), ('b', Bx(Pm('I'))), ('c', Bx(u16)), ('d', Opt(Bx(u8)))], tparams=[TP('A'), TP('I')])
E11 = E('E11', 'none', [('P', 'tuple', [('0', Bx(u16))]), ('Q', 'named', [('x', Pm('A')), ('y', Bx(Pm('A2')))])], tparams=[TP('A'), TP('A2')])
PRE = S('Pre', 'none', [('pad', STR), ('v', Pm('A'))], tparams=[TP('A')])

DEEP_DEFS = [D1, D2, D3, D4, D5, D6, D7, D8, D9, D10, D11, D12, D13, D14, D15, D16, D17, D18, D19, D20, D21, D22,
             E1, E2, E3, E4, E5, E6, E7, E8, E9, PRE, Z21, Z22, D23, D24, E10, ZE6, ZE7, ZE8, Z24, D25, E11]

DEFS = ZERO_DEFS + DEEP_DEFS


# ------------------------------------------------------------------- roots
def user_roots():
    z1, z2, z3 = U(Z1), U(Z2), U(Z3)
    r = []
    # plain zero-copy types
    for d in [Z1, Z2, Z3, Z4, Z5, Z6, Z7, Z10, Z11, Z12, Z13, Z14, Z17, Z18, ZE1, ZE2, ZE3, ZE4, ZE5, Z20]:
        r.append(U(d))
    r += [U(Z8, [u32]), U(Z8, [u8]), U(Z8, [f64]), U(Z9, [], [0]), U(Z9, [], [5]), U(Z15, [u32]), U(Z15, [Tup(u8, 2)]),
          U(Z16, [], [10]), U(Z16, [], [11]), U(Z19, [], [True, 'x']), U(Z19, [], [False, 'é'])]
    # sequences of zero-copy user types
    for d in [Z1, Z2, Z3, Z4, Z7, Z11, Z12, Z13, ZE1, ZE3, ZE4, Z20]:
        r.append(Vec(U(d)))
    r += [Bx(z1), Bx(U(Z7)), Arr(z1, 2), Arr(z2, 0), Arr(U(Z7), 3), Tup(z1, 2), Tup(z3, 4), Opt(z1), Opt(Vec(z2)),
          Vec(U(Z8, [u16])), Vec(Arr(z1, 2)), Vec(Tup(z3, 2)), Rg('Range', z1), Rg('RangeInclusive', z3),
          Rg('RangeFrom', U(Z7)), Rg('RangeTo', z2), Vec(Rg('RangeTo', z3)), Vec(Rg('RangeTo', u32)),
          Vec(Rg('RangeToInclusive', u64)), Bd(z1), Bd(Vec(z1)), Fl(z1, Vec(z2)), Fl(STR, z3)]
    # deep-copy definitions
    for d in [D1, D7, D8, D9, D10, D12, D13, D14, D18, D20, D21, E1, E2, E5, E6, E7]:
        r.append(U(d))
    v8, v32, vs = Vec(u8), Vec(u32), Vec(STR)
    r += [U(D2, [v32]), U(D2, [STR]), U(D2, [u8]), U(D2, [z1]), U(D2, [vs]), U(D2, [U(D2, [v8])]), U(D2, [Opt(Vec(u16))]),
          U(D2, [Arr(v8, 2)]), U(D2, [Vec(z2)]), U(D2, [U(D1)]), U(D2, [BOXSTR]), U(D2, [Bx(u64)]), U(D2, [Arr(u32, 3)]),
          U(D2, [Tup(u16, 2)]), U(D2, [U(E2)]), U(D2, [Rg('Range', u64)]), U(D2, [Bd(v8)]), U(D2, [UNIT]),
          U(D3, [Vec(z1), Bx(u8)]), U(D3, [STR, u64]), U(D3, [Vec(vs), Opt(STR)]), U(D3, [U(D2, [v32]), Vec(u128)]),
          U(D4, [u32]), U(D4, [z1]), U(D4, [Tup(u8, 2)]), U(D5, [u8]), U(D5, [STR]), U(D5, [Vec(z1)]),
          U(D6, [Vec(usize)], [2]), U(D6, [usize], [3]), U(D6, [STR], [0]), U(D11, [v8, u16]), U(D11, [STR, STR]),
          U(D11, [Vec(z2), z1]), U(D15, [v32]), U(D15, [Opt(STR)]), U(D16, [vs], [2, True]), U(D16, [u8], [0, False]),
          U(D17, [u64, v8]), U(D17, [STR, STR]), U(D19, [v8, STR, Vec(z1)]), U(D19, [u8, Opt(v32), Bx(STR)]),
          U(D22, [v32]), U(D22, [U(E1)]),
          U(E3, [Vec(u64)]), U(E3, [STR]), U(E3, [u16]), U(E3, [z2]), U(E3, [U(E3, [v8])]),
          U(E4, [u32, STR]), U(E4, [z1, u8]), U(E8, [v8, STR]), U(E8, [u32, Vec(z3)]), U(E9, [], [7]), U(E9, [], [8])]
    # user types inside built-in constructors
    r += [Vec(U(D1)), Vec(U(D2, [v8])), Opt(U(D2, [STR])), Bx(U(E2)), Arr(U(D1), 2), Vec(U(E3, [v32])), Vec(U(E1)),
          Bd(U(D2, [v32])), Fl(U(E1), U(D2, [STR])), Opt(U(E3, [Vec(z1)])), Vec(Vec(U(D10))), Arr(U(E6), 3),
          Vec(Opt(U(D2, [Vec(u16)]))), Bx(U(D3, [STR, v8]))]
    # residue sweep for C07: a run-time sized prefix before a block of every unit
    for t in [Vec(u16), Vec(u32), Vec(u64), Vec(u128), z1, z2, U(Z7), U(Z11), Tup(u16, 2), Arr(u64, 2), Vec(z3), Bx(u32), U(Z17),
              Vec(U(Z7)), U(Z13), Vec(U(ZE3)), Opt(Vec(u64)), U(D9), U(Z21), Vec(U(Z21))]:
        r.append(U(PRE, [t]))
    r += [U(Z21), Vec(U(Z21)), Opt(U(Z21)), Arr(U(Z21), 2)]
    # type parameters declared after / around const parameters, bounded enum parameters
    r += [U(D23, [Vec(i32)], [3]), U(D23, [STR], [0]), U(D24, [Vec(u8), STR], [2]), U(D24, [u8, Vec(U(Z1))], [1]),
          U(E10, [Vec(u64), STR], [2]), U(E10, [STR, Vec(u16)], [0]), Vec(U(D23, [Vec(u16)], [1]))]
    # enums whose field units are all smaller than the native alignment (tag, repr(align), repr(u64))
    r += [U(ZE6), Vec(U(ZE6)), U(PRE, [U(ZE6)]), U(ZE7), Vec(U(ZE7)), U(PRE, [Vec(U(ZE7))]), U(ZE8), Vec(U(ZE8)), U(PRE, [U(ZE8)]), Arr(U(ZE6), 3)]
    # a root type over-aligned beyond the 64 bytes load_mem provides
    r += [U(Z24), Vec(U(Z24)), U(D2, [U(Z24)]), Opt(U(Z24))]
    # sequences of deep-copy items that consist of exactly one zero-copy composite
    r += [Vec(U(D22, [z1])), Arr(U(D22, [Tup(u32, 2)]), 3), Bx(U(D22, [Arr(u16, 2)])), Vec(U(D15, [z2])), Vec(U(E5)), Vec(Opt(z1)), Vec(U(D22, [Vec(z1)]))]
    # generic definitions whose field types contain slices
    r += [U(D25, [Vec(u32), u64]), U(D25, [STR, STR]), U(E11, [Vec(u8), U(Z1)]), U(E11, [u16, STR])]
    # alignment units that are not a power of two (size_of of a range of a 12-byte type)
    r += [Vec(Rg('RangeTo', U(Z12))), U(Z22), Vec(U(Z22)), Arr(Rg('RangeToInclusive', U(Z12)), 2)]
    # arrays (and other blocks) of elements whose alignment unit (a power of two) exceeds their alignment
    rt8, rti8 = Rg('RangeTo', Tup(u32, 2)), Rg('RangeToInclusive', Arr(u16, 4))
    r += [Arr(rt8, 2), Opt(Arr(rt8, 2)), Opt(Opt(Arr(rt8, 2))), Opt(Opt(Opt(Arr(rt8, 2)))), U(PRE, [Arr(rt8, 3)]), U(PRE, [Arr(rti8, 2)]),
          Arr(Arr(rti8, 2), 2), U(D2, [Arr(rti8, 1)]), U(PRE, [rt8]), U(PRE, [Vec(rt8)]), Vec(rti8), Bd(Arr(rt8, 1)), U(PRE, [Tup(rt8, 2)])]
    # every kind of leaf read through the ε-copy path (a bare type parameter) and FOLLOWED by an aligned borrowed block:
    # the cursor position after each leaf reader must be right for the padding of the next block
    for leaf in [bool_, char_, u8, i16, u32, f64, u128, P('NonZeroU16'), UNIT, RFULL, Ph(u8), Opt(bool_), Opt(u8), Bd(bool_), Fl(bool_, u8),
                 STR, BOXSTR, Tup(u8, 3), Arr(u8, 3), Arr(bool_, 1), Rg('RangeTo', u8), Rg('RangeInclusive', u8), Opt(Opt(char_))]:
        r.append(U(D3, [leaf, Vec(u64)]))
    r += [U(D19, [bool_, char_, Vec(u32)]), U(D19, [Opt(bool_), u8, Vec(u128)]), U(D19, [u8, bool_, Vec(U(Z1))]), U(D11, [bool_, u16])]
    return r


def builtin_roots():
    r = []
    leaves = [P(n) for n in PRIMS] + [UNIT, RFULL, STR, BOXSTR, Ph(u32), Ph(STR)]
    r += leaves
    z1 = U(Z1)
    # depth 1 over a representative leaf set
    L1 = [u8, u16, u32, u64, u128, i8, f64, bool_, char_, P('NonZeroU32'), UNIT, STR, BOXSTR, RFULL, Ph(u8)]

    def cons1(t):
        out = [Opt(t), Bd(t), Fl(t, u8), Fl(u16, t), Vec(t), Bx(t)]
        if t.is_zero():
            if t.is_copy():
                out += [Arr(t, 0), Arr(t, 1), Arr(t, 3), Tup(t, 1), Tup(t, 2), Tup(t, 5)]
                out += [Rg(k, t) for k in RANGES]
        else:
            out += [Arr(t, 0), Arr(t, 2)]
        return out

    d1 = []
    for t in L1:
        d1 += cons1(t)
    # Vec/Box of non-Copy zero types do not exist; filter
    d1 = [t for t in d1 if valid(t)]
    r += d1
    r += [Tup(u8, 12), Tup(u128, 3), Tup(u64, 7), Arr(u8, 8), Arr(u32, 5), Arr(STR, 3), Arr(f32, 2)]
    # depth 2 over a reduced leaf set
    L2 = [u8, u32, STR, z1]
    d2 = []
    for t in L2:
        for c in cons1(t):
            if not valid(c):
                continue
            for cc in cons1(c):
                if valid(cc):
                    d2.append(cc)
    # thin out deterministically: keep every combination of outer/inner
    # constructor at least once, and all of them for leaf u32
    seen = set()
    for t in d2:
        key = (t.kind, t.args[0] if t.kind == 'range' else None, t.children()[0].kind)
        leaf_is_u32 = 'u32' in t.rust() and 'Z1' not in t.rust()
        if key not in seen or leaf_is_u32:
            seen.add(key)
            r.append(t)
    # seeded-random nestings to depth 4 (fixed seed: part of the golden universe)
    rnd = random.Random(20260928)
    L3 = [u8, u16, u32, u64, i32, f32, bool_, char_, STR, BOXSTR, z1, U(Z3), UNIT, P('NonZeroU8'), u128]
    out = []
    tries = 0
    while len(out) < 40 and tries < 5000:
        tries += 1
        t = rnd.choice(L3)
        for _ in range(rnd.randint(3, 4)):
            cs = [c for c in cons1(t) if valid(c)]
            t = rnd.choice(cs)
        if t not in out and t not in r:
            out.append(t)
    r += out
    return r


def valid(t):
    """Is the closed type expression supported by the library?"""
    k = t.kind
    if k in ('vec', 'boxslice'):
        e = t.args[0]
        return valid(e) and (not e.is_zero() or e.is_copy())
    if k == 'arr':
        e = t.args[0]
        return valid(e) and (not e.is_zero() or e.is_copy())
    if k == 'tup':
        e = t.args[0]
        return valid(e) and e.usable_zero()
    if k == 'range':
        e = t.args[1]
        return valid(e) and e.usable_zero()
    return all(valid(c) for c in t.children())


def seq_elems():
    z = [u8, u16, u32, u64, u128, i8, f64, bool_, char_, P('NonZeroU32'), Tup(u32, 2), Arr(u16, 3), U(Z1), U(Z2), U(Z3),
         U(Z7), U(Z11), U(Z13), U(ZE3), U(ZE1), UNIT, U(Z4), Rg('RangeTo', u32), U(Z8, [u16]), U(Z9, [], [3]), Arr(u8, 0)]
    d = [STR, Vec(u8), U(D1), Bx(u16), Opt(u32), U(D2, [Vec(u8)]), U(E2), Vec(U(Z1)), BOXSTR, U(E1), Bd(STR)]
    return z, d


import os as _os
if _os.environ.get('VERIF_PINNED_CORPUS'):
    # writing corpus lines with the pinned build: leave out the definitions
    # that only compile since a fix: commit (bounded ε-copied enum parameter)
    DEFS = [d for d in DEFS if d is not E10]


def roots():
    out = []
    seen = set()
    for t in builtin_roots() + user_roots():
        if _os.environ.get('VERIF_PINNED_CORPUS') and 'E10' in t.rust():
            continue
        if t.rust() not in seen and valid(t):
            seen.add(t.rust())
            out.append(t)
    return out


if __name__ == '__main__':
    rs = roots()
    print(len(rs))
    for t in rs:
        print(t.rust(), ' => ', t.eps())
