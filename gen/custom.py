"""Python-side monitors: probe programs (C09/C17), the offline checker over
the strace log (C08/C09), universe B (C05)."""

import glob
import json
import os
import re
import subprocess
import time
from concurrent.futures import ThreadPoolExecutor

import probes

VERIF = os.path.dirname(os.path.dirname(os.path.abspath(__file__)))
TARGET = os.path.join(VERIF, 'target')
BASE_ENV = dict(os.environ, CARGO_NET_OFFLINE='true')
NCPU = os.cpu_count() or 16


# ---------------------------------------------------------------- rustc
def find_rlib(depdir, name):
    c = sorted(glob.glob(os.path.join(depdir, 'lib%s-*.rlib' % name)), key=os.path.getmtime)
    return c[-1] if c else None


def compile_probe(src_path, out_path, depdir, nightly_asan=False):
    """Returns (ok, [error codes], first message)."""
    ep = find_rlib(depdir, 'epserde')
    if ep is None:
        return None, [], 'epserde rlib not found in ' + depdir
    cmd = ['rustc'] if not nightly_asan else ['rustc', '+nightly']
    if nightly_asan:
        cmd = ['rustup', 'run', 'nightly', 'rustc', '-Zsanitizer=address', '--target', 'x86_64-unknown-linux-gnu']
    cmd += ['--edition', '2021', '--crate-type', 'bin', '--error-format=json', '-Cdebuginfo=1', '--cfg', 'epserde_verif',
            '-L', 'dependency=' + depdir, '--extern', 'epserde=' + ep, '-o', out_path, src_path]
    if nightly_asan:
        cmd += ['-L', 'dependency=' + os.path.join(TARGET, 'asan', 'debug', 'deps')]
    r = subprocess.run(cmd, env=BASE_ENV, stdout=subprocess.PIPE, stderr=subprocess.PIPE, text=True)
    codes, first = [], ''
    for line in r.stderr.splitlines():
        try:
            j = json.loads(line)
        except ValueError:
            continue
        if j.get('level') == 'error':
            c = (j.get('code') or {}).get('code')
            if c:
                codes.append(c)
            if not first:
                first = j.get('message', '')[:200]
    return r.returncode == 0, codes, first


def run_bin(path, env=None, timeout=60):
    try:
        r = subprocess.run([path], env=dict(BASE_ENV, **(env or {})), stdout=subprocess.PIPE, stderr=subprocess.PIPE, text=True,
                           timeout=timeout, errors='replace')
        return r.returncode, r.stdout, r.stderr
    except subprocess.TimeoutExpired:
        return None, '', 'timeout'


def viol(mg, prop, sig, root, detail):
    mg.add_violation({'prop': prop, 'sig': sig, 'root': root, 'val': None, 'detail': detail, 'flavour': 'probe'})


def count(mg, k, n=1):
    mg.counters[k] = mg.counters.get(k, 0) + n


# ------------------------------------------------------------------ C17
BORROWCK = {'E0597', 'E0505', 'E0515', 'E0716', 'E0521', 'E0502', 'E0506', 'E0499', 'E0503', 'E0382', 'E0507', 'E0308', 'E0310', 'E0621', 'E0106', 'E0759'}


def run_c17(tier, seed, mg, log, build):
    b = build('debug', log)
    if isinstance(b, tuple):
        mg.inconclusive.append('harness build failed (debug): see %s' % b[1])
        return
    depdir = os.path.join(TARGET, 'debug', 'debug', 'deps')
    pdir = os.path.join(TARGET, 'probes', 'c17')
    os.makedirs(pdir, exist_ok=True)
    plist = probes.c17_probes()
    t0 = time.time()

    def one(p):
        name, src, expect = p
        sp = os.path.join(pdir, name + '.rs')
        open(sp, 'w').write(src)
        ok, codes, first = compile_probe(sp, os.path.join(pdir, name), depdir)
        res = {'name': name, 'expect': expect, 'compiled': ok, 'codes': codes, 'msg': first}
        if ok:
            rc, out, err = run_bin(os.path.join(pdir, name))
            res.update(rc=rc, out=out, err=err[-400:])
            try:
                os.remove(os.path.join(pdir, name))
            except OSError:
                pass
        return res
    with ThreadPoolExecutor(NCPU) as ex:
        results = list(ex.map(one, plist))
    for r in results:
        count(mg, 'evaluations')
        count(mg, 'probe_programs')
        mg.distinct += 1
        name = r['name']
        if r['compiled'] is None:
            mg.inconclusive.append('probe %s: %s' % (name, r['msg']))
            continue
        if r['expect'] == 'control':
            m = re.findall(r'PROBE-RESULT panicked=(\w+) returned=(\S+) bytes=(\d+) value_bytes=(\d+)', r.get('out', ''))
            if not r['compiled'] or len(m) != 2 or any(x[0] != 'false' or not x[1].startswith('Some(Ok') for x in m):
                mg.inconclusive.append('control probe %s does not behave: %s %s' % (name, r.get('msg'), r.get('out', '')[:200]))
            else:
                count(mg, 'control_probes_ok')
            continue
        kind = name.split('_in_')[0] if '_in_' in name else re.sub(r'_Z\w*$', '', name)
        if not r['compiled']:
            derive_panic = 'proc-macro derive panicked' in r['msg']
            bound = set(r['codes']) & {'E0277', 'E0204', 'E0271', 'E0599'}
            foreign = set(r['codes']) - {'E0277', 'E0204', 'E0271', 'E0599', 'E0282', 'E0283'}
            if foreign or not (derive_panic or bound):
                # an unresolved name, syntax error, ...: our probe is broken, not the library
                mg.inconclusive.append('probe %s rejected for an unrelated reason: %s %s' % (name, sorted(foreign)[:3], r['msg']))
                continue
            count(mg, 'rejected_at_compile_time')
            if derive_panic:
                count(mg, 'rejected_by_derive_check')
            mg.sets.setdefault('rejections', set()).add('%s: %s' % (kind, 'derive-panic' if derive_panic else sorted(bound)[0]))
            continue
        # compiled: must panic before any byte of the value reaches the sink
        count(mg, 'layer2_probes_run')
        m = re.search(r'PROBE-RESULT panicked=(\w+) returned=(\S+) bytes=(\d+) value_bytes=(\d+)', r.get('out', ''))
        if not m:
            viol(mg, 'C17', 'C17/probe-died/%s' % kind, name, 'probe compiled but died without a verdict: rc=%s stderr=%s' % (r.get('rc'), r.get('err')))
            continue
        panicked, returned, nbytes, vbytes = m.group(1) == 'true', m.group(2), int(m.group(3)), int(m.group(4))
        mg.sets.setdefault('layer2_outcomes', set()).add('%s: panicked=%s value_bytes=%d' % (kind, panicked, vbytes))
        if not panicked:
            viol(mg, 'C17', 'C17/serialized/%s' % kind, name,
                 'a type wrongly declared zero-copy compiled and serialize returned %s after writing %d bytes (%d of the value)' % (returned, nbytes, vbytes))
        elif vbytes > 0:
            viol(mg, 'C17', 'C17/bytes-before-panic/%s' % kind, name, 'serialize panicked only after %d bytes of the value had been written' % vbytes)
        else:
            count(mg, 'panicked_before_value_bytes')
    mg.samples = [{'probe': r['name'], 'compiled': r['compiled'], 'error_codes': r['codes'][:3], 'message': r['msg'][:120]} for r in results[:4]] + \
                 [{'probe': r['name'], 'compiled': True, 'output': r.get('out', '')[:160]} for r in results if r['compiled']][:4]
    mg.per_flavour['rustc-probes'] = {'shards': 1, 'done': 1, 'evaluations': len(results), 'sanitizer_reports': 0}
    log['runs'].append({'flavour': 'rustc-probes', 'programs': len(results), 'wall_s': round(time.time() - t0, 1)})


# ------------------------------------------------------------------ C08
def run_c08_probes(mg, log):
    """No run can observe a dropped Send/Sync bound: the compiler's verdict on five tiny programs does."""
    depdir = os.path.join(TARGET, 'debug', 'debug', 'deps')
    pdir = os.path.join(TARGET, 'probes', 'c08')
    os.makedirs(pdir, exist_ok=True)
    for name, src, expect in probes.c08_probes():
        sp = os.path.join(pdir, name + '.rs')
        open(sp, 'w').write(src)
        ok, codes, first = compile_probe(sp, os.path.join(pdir, name), depdir)
        try:
            os.remove(os.path.join(pdir, name))
        except OSError:
            pass
        count(mg, 'evaluations')
        count(mg, 'send_sync_probes')
        if ok is None:
            mg.inconclusive.append('probe %s: %s' % (name, first))
        elif expect == 'reject' and ok:
            viol(mg, 'C08', 'C08/send-sync/%s' % name, name, 'this program must be rejected (a MemCase of a non-thread-safe type crossed a thread boundary bound) but it compiles')
        elif expect == 'reject' and 'E0277' not in codes:
            mg.inconclusive.append('probe %s rejected for an unrelated reason: %s %s' % (name, codes[:3], first))
        elif expect == 'compile' and not ok:
            viol(mg, 'C08', 'C08/send-sync/%s' % name, name, 'a MemCase of a thread-safe structure is no longer Send/Sync: %s' % first)
        else:
            count(mg, 'send_sync_probes_ok')


# ------------------------------------------------------------------ C05
def run_c05_probes(tier, seed, mg, log, build):
    """One small program per shape of the derive grammar: must compile, round-trip in both modes (Debug renderings equal)."""
    depdir = os.path.join(TARGET, 'debug', 'debug', 'deps')
    pdir = os.path.join(TARGET, 'probes', 'c05')
    os.makedirs(pdir, exist_ok=True)
    t0 = time.time()

    def one(p):
        name, src = p
        sp = os.path.join(pdir, name + '.rs')
        open(sp, 'w').write(src)
        ok, codes, first = compile_probe(sp, os.path.join(pdir, name), depdir)
        res = {'name': name, 'compiled': ok, 'codes': codes, 'msg': first}
        if ok:
            rc, out, err = run_bin(os.path.join(pdir, name))
            res.update(rc=rc, out=out, err=err[-300:])
            try:
                os.remove(os.path.join(pdir, name))
            except OSError:
                pass
        return res
    with ThreadPoolExecutor(NCPU) as ex:
        results = list(ex.map(one, probes.c05_probes()))
    for r in results:
        count(mg, 'evaluations')
        count(mg, 'grammar_probes')
        mg.distinct += 1
        name = r['name']
        if r['compiled'] is None:
            mg.inconclusive.append('probe %s: %s' % (name, r['msg']))
        elif not r['compiled']:
            viol(mg, 'C05', 'C05/grammar-probe/%s' % name, name, 'a definition of this shape does not compile: %s %s' % (r['codes'][:3], r['msg']))
        elif r.get('rc') != 0 or 'PROBE-OK' not in r.get('out', ''):
            viol(mg, 'C05', 'C05/grammar-probe-run/%s' % name, name, 'compiled but does not round-trip: rc=%s %s %s' % (r.get('rc'), r.get('out', '')[:300], r.get('err', '')))
        else:
            count(mg, 'grammar_probes_ok')
            mg.sets.setdefault('grammar_shapes_ok', set()).add(name)
    mg.per_flavour['rustc-probes'] = {'shards': 1, 'done': 1, 'evaluations': len(results), 'sanitizer_reports': 0}
    log['runs'].append({'flavour': 'rustc-probes', 'programs': len(results), 'wall_s': round(time.time() - t0, 1)})


# ------------------------------------------------------------------ C09
def run_c09_probes(tier, seed, mg, log, build):
    b = build('debug', log)
    if isinstance(b, tuple):
        mg.inconclusive.append('harness build failed (debug)')
        return
    depdir = os.path.join(TARGET, 'debug', 'debug', 'deps')
    pdir = os.path.join(TARGET, 'probes', 'c09')
    os.makedirs(pdir, exist_ok=True)
    plist = probes.c09_probes()
    t0 = time.time()
    asan_dep = None

    def one(p):
        name, src, expect = p
        sp = os.path.join(pdir, name + '.rs')
        open(sp, 'w').write(src)
        ok, codes, first = compile_probe(sp, os.path.join(pdir, name), depdir)
        try:
            os.remove(os.path.join(pdir, name))
        except OSError:
            pass
        return {'name': name, 'expect': expect, 'compiled': ok, 'codes': codes, 'msg': first, 'src': sp}
    with ThreadPoolExecutor(NCPU) as ex:
        results = list(ex.map(one, plist))
    compiled = [r for r in results if r['compiled']]
    if compiled:
        a = build('asan', log)
        if isinstance(a, tuple):
            mg.inconclusive.append('asan build failed: probes that compile cannot be run')
        else:
            asan_dep = os.path.join(TARGET, 'asan', 'x86_64-unknown-linux-gnu', 'debug', 'deps')
    for r in results:
        count(mg, 'evaluations')
        count(mg, 'probe_programs')
        mg.distinct += 1
        name = r['name']
        if r['compiled'] is None:
            mg.inconclusive.append('probe %s: %s' % (name, r['msg']))
            continue
        if not r['compiled']:
            if set(r['codes']) & BORROWCK:
                count(mg, 'rejected_by_borrow_checker')
                mg.sets.setdefault('rejections', set()).add('%s: %s' % (name.rsplit('_', 1)[0], sorted(set(r['codes']) & BORROWCK)[0]))
            else:
                mg.inconclusive.append('probe %s rejected for another reason: %s %s' % (name, r['codes'][:3], r['msg']))
            continue
        # compiles: run under ASan – silence means the path is harmless
        count(mg, 'probes_compiled')
        if asan_dep is None:
            continue
        exe = os.path.join(pdir, name + '.asan')
        ok, codes, first = compile_probe(r['src'], exe, asan_dep, nightly_asan=True)
        if not ok:
            mg.inconclusive.append('probe %s does not build under ASan: %s' % (name, first))
            continue
        rc, out, err = run_bin(exe, env={'ASAN_OPTIONS': 'detect_leaks=0:halt_on_error=1'})
        try:
            os.remove(exe)
        except OSError:
            pass
        count(mg, 'probes_run_under_asan')
        m = re.search(r'ERROR: AddressSanitizer: ([\w-]+)', err)
        if m:
            count(mg, 'asan_reports')
            viol(mg, 'C09', 'C09/probe-uaf/%s' % name, name,
                 'safe client program compiles and reads memory after its owner was dropped: AddressSanitizer %s' % m.group(1))
        elif rc not in (0,):
            viol(mg, 'C09', 'C09/probe-crash/%s' % name, name, 'safe client program compiles and dies with rc=%s: %s' % (rc, err[-300:]))
        else:
            count(mg, 'probes_harmless')
            if r['expect'] == 'reject':
                mg.sets.setdefault('compiled_but_harmless', set()).add(name)
    mg.samples += [{'probe': r['name'], 'compiled': r['compiled'], 'error_codes': r['codes'][:3]} for r in results[:3]] + \
                  [{'probe': r['name'], 'compiled': True} for r in compiled[:3]]
    mg.per_flavour['rustc-probes'] = {'shards': 1, 'done': 1, 'evaluations': len(results), 'sanitizer_reports': mg.counters.get('asan_reports', 0)}
    log['runs'].append({'flavour': 'rustc-probes', 'programs': len(results), 'wall_s': round(time.time() - t0, 1)})


# --------------------------------------------------------------- strace
ADVICE = {1: 'MADV_HUGEPAGE', 2: 'MADV_SEQUENTIAL', 4: 'MADV_RANDOM'}


def run_strace(prop, seed, mg, log, binary):
    """Offline checker over the strace log of the C08S workload."""
    os.makedirs(os.path.join(TARGET, 'run', prop), exist_ok=True)
    logp = os.path.join(TARGET, 'run', prop, 'strace.log')
    outp = os.path.join(TARGET, 'run', prop, 'strace.jsonl')
    t0 = time.time()
    r = subprocess.run(['strace', '-f', '-e', 'trace=openat,mmap,munmap,madvise,mprotect,mremap', '-o', logp, binary, 'C08S', '--seed', str(seed),
                        '--out', outp, '--tmp', os.path.join(TARGET, 'tmp')], env=BASE_ENV, stdout=subprocess.DEVNULL, stderr=subprocess.DEVNULL)
    if r.returncode not in (0,):
        mg.inconclusive.append('strace workload exited %s' % r.returncode)
        return
    cur = None
    live = {}        # addr -> (len, section)
    sections = 0
    events = 0
    for line in open(logp, errors='replace'):
        line = re.sub(r'^\d+\s+', '', line)
        m = re.match(r'openat\(AT_FDCWD, "/epv-marker/([^"]*)"', line)
        if m:
            parts = m.group(1).split('/')
            tag = parts[0]
            if tag in ('begin', 'begin-fail'):
                cur = {'kind': tag, 'loader': parts[1], 'flags': int(parts[2]), 'maps': [], 'advice': {}, 'mprotect': {}, 'unmaps': [],
                       'phase': 'loading', 'name': '/'.join(parts[1:])}
                sections += 1
            elif cur is not None:
                if tag == 'loaded':
                    cur['region'] = (int(parts[1], 16), int(parts[2]))
                    cur['phase'] = 'loaded'
                    cur['unmaps_before_loaded'] = list(cur['unmaps'])
                elif tag == 'lastuse':
                    cur['phase'] = 'lastuse'
                    cur['unmaps_before_lastuse'] = list(cur['unmaps'])
                    if parts[1] != 'true':
                        viol(mg, prop, '%s/strace/value' % prop, cur['name'], 'value read through the mapping differs')
                elif tag in ('dropped', 'end-fail'):
                    judge_section(prop, mg, cur)
                    cur = None
                elif tag == 'unexpected-ok':
                    viol(mg, prop, '%s/strace/accepted' % prop, cur['name'], 'loading a file as a different type succeeded')
            continue
        if cur is None:
            continue
        m = re.match(r'mmap\(NULL, (\d+), ([A-Z_|]+), ([A-Z_|]+), (-?\d+), 0\) = (0x[0-9a-f]+)', line)
        if m:
            events += 1
            cur['maps'].append({'addr': int(m.group(5), 16), 'len': int(m.group(1)), 'prot': m.group(2), 'flags': m.group(3), 'fd': int(m.group(4))})
            continue
        m = re.match(r'madvise\((0x[0-9a-f]+), (\d+), (\w+)\) = (-?\d+)', line)
        if m:
            events += 1
            cur['advice'].setdefault(int(m.group(1), 16), []).append(m.group(3))
            continue
        m = re.match(r'mprotect\((0x[0-9a-f]+), (\d+), ([A-Z_|]+)\) = 0', line)
        if m:
            events += 1
            cur['mprotect'].setdefault(int(m.group(1), 16), []).append(m.group(3))
            continue
        m = re.match(r'munmap\((0x[0-9a-f]+), (\d+)\)\s+= 0', line)
        if m:
            events += 1
            cur['unmaps'].append((int(m.group(1), 16), int(m.group(2))))
    count(mg, 'strace_sections', sections)
    count(mg, 'strace_events_matched', events)
    count(mg, 'evaluations', sections)
    mg.per_flavour['strace'] = {'shards': 1, 'done': 1, 'evaluations': sections, 'sanitizer_reports': 0}
    log['runs'].append({'flavour': 'strace', 'sections': sections, 'events': events, 'wall_s': round(time.time() - t0, 1)})
    if sections < 32:
        mg.inconclusive.append('strace log has only %d sections' % sections)


def judge_section(prop, mg, s):
    loader, flags = s['loader'], s['flags']
    # the mapping created for this load: anonymous for load_mmap, file-backed for mmap
    cands = [m for m in s['maps'] if (m['fd'] >= 0) == (loader == 'mmap') and ('MAP_STACK' not in m['flags'])]
    if s['kind'] == 'begin':
        region = s.get('region')
        if not region:
            viol(mg, prop, '%s/strace/no-region' % prop, s['name'], 'no loaded marker')
            return
        mine = [m for m in cands if m['addr'] == region[0]]
        if not mine:
            viol(mg, prop, '%s/strace/region-not-mapped' % prop, s['name'], 'the hooked backing region %x was not returned by an mmap call of this load' % region[0])
            return
        mp = mine[-1]
        count(mg, 'mappings_checked')
        if prop == 'C08':
            want = sorted(a for bit, a in ADVICE.items() if flags & bit)
            got = sorted(set(a for a in s['advice'].get(mp['addr'], []) if a in ADVICE.values()))
            mg.sets.setdefault('madvise_sets_seen', set()).add('%s:%03d=%s' % (loader, int(bin(flags)[2:]), '+'.join(got) or 'none'))
            if want != got:
                viol(mg, prop, 'C08/strace/advice/%s' % loader, s['name'], 'flags %03d translate to madvise %s, expected %s' % (int(bin(flags)[2:]), got, want))
            else:
                count(mg, 'flag_translations_ok')
            if loader == 'load_mmap':
                if 'PROT_READ' not in s['mprotect'].get(mp['addr'], []):
                    viol(mg, prop, 'C08/strace/not-readonly', s['name'], 'load_mmap region was not mprotect()ed read-only before use: %s' % s['mprotect'])
                else:
                    count(mg, 'readonly_protections_ok')
            elif 'PROT_WRITE' in mp['prot']:
                viol(mg, prop, 'C08/strace/writable-file-mapping', s['name'], 'file mapped with %s' % mp['prot'])
        else:
            # C09: released exactly once, with the same length, after the last use
            un = [u for u in s['unmaps'] if u[0] == mp['addr']]
            early = [u for u in s.get('unmaps_before_lastuse', []) if u[0] == mp['addr']]
            if early:
                viol(mg, prop, 'C09/strace/unmapped-before-last-use/%s' % loader, s['name'], 'munmap%s before the last use' % (early[0],))
            elif len(un) != 1:
                viol(mg, prop, 'C09/strace/release-count/%s' % loader, s['name'], 'the mapping %x+%d was munmap()ed %d times' % (mp['addr'], mp['len'], len(un)))
            elif un[0][1] != mp['len']:
                viol(mg, prop, 'C09/strace/release-length/%s' % loader, s['name'], 'mapped %d bytes, unmapped %d' % (mp['len'], un[0][1]))
            else:
                count(mg, 'mappings_released_exactly_once')
    else:
        # failing load: every mapping created must be gone again
        if prop == 'C09':
            for m in cands:
                n = sum(1 for u in s['unmaps'] if u[0] == m['addr'])
                count(mg, 'failed_load_mappings_checked')
                if n != 1:
                    viol(mg, prop, 'C09/strace/leak-on-failure/%s' % loader, s['name'], 'mapping %x+%d created by a failing load was munmap()ed %d times' % (m['addr'], m['len'], n))
                else:
                    count(mg, 'failed_load_mappings_released')


# ------------------------------------------------------------------ main
def run(prop, tier, seed, mg, log, build, run_shards, merge, rundir, extra, classify_build_failure=None, only_flavours=None):
    import props as P
    spec = P.PROPS[prop]
    timeout = 1500 if tier == 'quick' else 5400
    if prop == 'C17':
        run_c17(tier, seed, mg, log, build)
        return
    flavours = ['debug', 'nommap'] if prop == 'C08' else ['debug']
    if tier == 'thorough':
        flavours += ['fastrel', 'asan'] if prop != 'C05' else ['fastrel']
    if prop == 'C09' and tier == 'thorough':
        flavours += ['asanleak']
    if only_flavours:
        flavours = [f for f in flavours if f in only_flavours] or flavours[:1]
    binary = None
    for fl in flavours:
        b = build(fl, log)
        if isinstance(b, tuple):
            who, msg = classify_build_failure(b[1]) if classify_build_failure else ('harness', '')
            if who == 'repo':
                mg.add_violation({'prop': prop, 'sig': '%s/does-not-compile' % prop if prop == 'C05' else '%s/universe-does-not-compile' % prop, 'root': 'universe A', 'val': None,
                                  'detail': 'a definition of the supported grammar, or the assertion that its derived ε-copy / serialisation type is the documented one, no longer compiles: ' + msg,
                                  'flavour': 'build'})
            else:
                mg.inconclusive.append('harness build failed in flavour %s (see %s): %s' % (fl, b[1], msg[:300]))
            continue
        if fl == 'debug':
            binary = b
        monitor = prop
        res = run_shards(monitor, fl, b, tier, seed, NCPU, extra + ['--scale', str(spec.get('scale', {}).get(tier, 2 if tier == 'quick' else 8))], os.path.join(rundir, fl), timeout, log)
        merge(prop, fl, res, mg)
        mg.sets.setdefault('feature_sets', set()).add('no-mmap' if fl == 'nommap' else 'default')
    if prop == 'C05':
        # universe B: fresh definitions for this seed, in a binary of its own
        for fl in (['debug'] if tier == 'quick' else ['debug', 'fastrel']):
            b = build(fl, log, package='epvb')
            if isinstance(b, tuple):
                who, msg = classify_build_failure(b[1]) if classify_build_failure else ('harness', '')
                if who == 'repo':
                    mg.add_violation({'prop': 'C05', 'sig': 'C05/universe-B-does-not-compile', 'root': 'universe B seed %d' % seed, 'val': None,
                                      'detail': 'a generated definition of the supported grammar (or its ε-copy type assertion) does not compile: ' + msg,
                                      'flavour': 'build'})
                else:
                    mg.inconclusive.append('epvb build failed in flavour %s (see %s)' % (fl, b[1]))
                continue
            res = run_shards('C05', fl + '-universeB', b, tier, seed, NCPU, extra, os.path.join(rundir, fl + '-B'), timeout, log)
            merge(prop, fl + '-universeB', res, mg)
        run_c05_probes(tier, seed, mg, log, build)
    if prop in ('C08', 'C09') and binary:
        run_strace(prop, seed, mg, log, binary)
    if prop == 'C08' and binary:
        run_c08_probes(mg, log)
    if prop == 'C09':
        run_c09_probes(tier, seed, mg, log, build)
