#!/usr/bin/env python3
"""Trusting the monitors: apply each mutant patch to /repo, run the designated
checks, expect a VIOLATION, undo the patch.

    selftest/run.py [--only substr] [--full] [--tests]

Patches: selftest/patches/*.diff (reverse patches of the fix: commits and
hand-written mutants) and seeded/<id>/patch.diff (changes written by
independent sub-agents).  Expectations: selftest/expect.json (prefix → list of
property ids) and seeded/<id>/meta.json.  By default only the debug flavour is
run (fast); --full uses the registered quick command.  --tests also runs the
repository's own test suite on the mutated tree.
"""
import glob
import json
import os
import subprocess
import sys
import time

VERIF = os.path.dirname(os.path.dirname(os.path.abspath(__file__)))


def sh(cmd, **kw):
    return subprocess.run(cmd, shell=isinstance(cmd, str), stdout=subprocess.PIPE, stderr=subprocess.STDOUT, text=True, **kw)


def main():
    only = sys.argv[sys.argv.index('--only') + 1] if '--only' in sys.argv else None
    full = '--full' in sys.argv
    tests = '--tests' in sys.argv
    expect = json.load(open(os.path.join(VERIF, 'selftest', 'expect.json')))
    items = []
    for p in sorted(glob.glob(os.path.join(VERIF, 'selftest', 'patches', '*.diff'))):
        name = os.path.basename(p)[:-5]
        props = next((v for k, v in expect.items() if name.startswith(k)), None)
        if props:
            items.append((name, p, props))
    for d in sorted(glob.glob(os.path.join(VERIF, 'seeded', '*'))):
        mp = os.path.join(d, 'meta.json')
        if os.path.exists(mp) and os.path.exists(os.path.join(d, 'patch.diff')):
            m = json.load(open(mp))
            items.append(('seeded/' + os.path.basename(d), os.path.join(d, 'patch.diff'), m.get('checks', [m.get('property')])))
    if sh('git -C /repo status --porcelain --untracked-files=no').stdout.strip():
        print('refusing: /repo has uncommitted changes')
        return 2
    results = []
    for name, patch, props in items:
        if only and only not in name:
            continue
        r = sh(['git', '-C', '/repo', 'apply', '--whitespace=nowarn', patch])
        if r.returncode != 0:
            print('%-60s PATCH DOES NOT APPLY: %s' % (name, r.stdout.strip()[:200]))
            results.append({'mutant': name, 'applies': False})
            continue
        try:
            row = {'mutant': name, 'applies': True, 'checks': {}}
            if tests:
                t = sh('cd /repo && cargo test --workspace --no-fail-fast --offline 2>&1 | grep -E "^test result" | awk \'{p+=$4; f+=$6} END {print p" "f}\'')
                row['repo_tests'] = t.stdout.strip()
            for prop in props:
                t0 = time.time()
                cmd = [os.path.join(VERIF, 'check'), prop] + ([] if full else ['--flavours', 'debug'])
                c = sh(cmd, cwd=VERIF)
                fired = c.returncode == 1 and 'VIOLATION property=%s' % prop in c.stdout
                sigs = [l.strip().split(':')[0] for l in c.stdout.splitlines() if l.startswith('  C')]
                row['checks'][prop] = {'fired': fired, 'rc': c.returncode, 'wall_s': round(time.time() - t0, 1), 'signatures': sigs[:4]}
                print('%-60s %s %-9s %5.1fs %s' % (name, prop, 'DETECTED' if fired else 'MISSED(rc=%d)' % c.returncode, time.time() - t0, ' '.join(sigs[:2])), flush=True)
            results.append(row)
        finally:
            sh('git -C /repo checkout -- .')
    # merge with earlier runs (rows are keyed by mutant name)
    rp = os.path.join(VERIF, 'selftest', 'results.json')
    try:
        prev = {r['mutant']: r for r in json.load(open(rp))}
    except (OSError, ValueError):
        prev = {}
    for r in results:
        if r['mutant'] in prev and r.get('checks') and not full:
            old_checks = prev[r['mutant']].get('checks', {})
            for k, v in old_checks.items():
                r['checks'].setdefault(k, v)
        prev[r['mutant']] = r
    json.dump(sorted(prev.values(), key=lambda r: r['mutant']), open(rp, 'w'), indent=1)
    missed = [r for r in results if r.get('applies') and not all(c['fired'] for c in r['checks'].values())]
    print('%d mutants, %d with a missed check' % (len(results), len(missed)))
    return 1 if missed else 0


if __name__ == '__main__':
    sys.exit(main())
