#!/usr/bin/env python3
"""Systematic (syntactic) mutation run, complementary to the hand-made and
seeded mutants: sample single-token mutations of the library source, keep
those that still compile and pass the repository's own tests, and see whether
any quick check (debug flavour) fires.

    selftest/mutate.py --repo DIR --verif DIR [--max N] [--seed S] [--out FILE]

DIR/--repo must be a scratch copy of /repo (never /repo itself); DIR/--verif a
copy of /verif whose harness/Cargo.toml is rewritten to point at the scratch
repository.  Survivors are either equivalent mutants or gaps; they are listed
for triage, never acted upon automatically.
"""
import argparse
import glob
import json
import os
import random
import re
import subprocess
import sys
import time

OPS = [
    (r'==', '!='), (r'!=', '=='),
    (r' < ', ' <= '), (r' > ', ' >= '), (r' <= ', ' < '), (r' >= ', ' > '),
    (r' \+ ', ' - '), (r' - ', ' + '), (r' \* ', ' + '),
    (r'&&', '||'), (r'\|\|', '&&'),
    (r'\bmax\(', 'min('), (r'\bmin\(', 'max('),
    (r'\btrue\b', 'false'), (r'\bfalse\b', 'true'),
    (r'&0_u8', '&1_u8'), (r'&1_u8', '&2_u8'), (r'&2_u8', '&1_u8'),
    (r'\b0 =>', '3 =>'), (r'\b1 =>', '0 =>'), (r'\b2 =>', '1 =>'),
    (r'\+= 1\b', '+= 2'), (r'\.saturating_sub\(1\)', '.saturating_sub(2)'),
    (r'size_of::<', 'align_of::<'), (r'align_of::<', 'size_of::<'),
    (r'wrapping_neg\(\)', 'wrapping_add(0)'),
    (r'\.is_empty\(\)', '.len() == 1'),
]
DELETE_LINE = [r'backend\.align::<', r'self\.skip\(', r'\.flush\(\)', r'\.fill\(0\)', r'check_zero_copy::<', r'core::mem::forget\(',
               r'hash\(hasher\);', r'\*offset_of \+=', r'self\.pos \+=', r'self\.len = ']
ORDER = {  # which checks to try first for a file
    'aligned_cursor.rs': ['C19'], 'write_with_names.rs': ['C18', 'C07', 'C13'], 'mem_case.rs': ['C08', 'C09'],
    'type_info.rs': ['C04', 'C06', 'C07'], 'slice.rs': ['C16', 'C13'], 'iter.rs': ['C16', 'C13'],
    'epserde-derive': ['C05', 'C04', 'C17', 'C15', 'C07'], 'write.rs': ['C13'], 'read.rs': ['C14', 'C11'],
    'reader_with_pos.rs': ['C14', 'C11', 'C07', 'C01'], 'slice_with_pos.rs': ['C12', 'C11', 'C02'],
    'helpers.rs': ['C02', 'C03', 'C01', 'C07', 'C12', 'C17'], 'lib.rs': ['C07', 'C06', 'C10'],
}
ALL = ['C01', 'C02', 'C06', 'C07', 'C03', 'C04', 'C05', 'C10', 'C11', 'C12', 'C13', 'C14', 'C15', 'C16', 'C17', 'C18', 'C19', 'C08', 'C09']


def sh(cmd, cwd=None, env=None, timeout=3600):
    try:
        r = subprocess.run(cmd, cwd=cwd, env=env, stdout=subprocess.PIPE, stderr=subprocess.STDOUT, text=True, timeout=timeout, errors='replace')
        return r.returncode, r.stdout
    except subprocess.TimeoutExpired:
        return 124, 'timeout'


def sites(repo):
    out = []
    files = sorted(glob.glob(os.path.join(repo, 'epserde', 'src', '**', '*.rs'), recursive=True)) + [os.path.join(repo, 'epserde-derive', 'src', 'lib.rs')]
    for f in files:
        in_tests = False
        for i, line in enumerate(open(f).read().split('\n')):
            st = line.strip()
            if st.startswith('#[cfg(test)]') or st.startswith('#[test]'):
                in_tests = True
            if in_tests or st.startswith('//') or st.startswith('*') or st.startswith('/*') or st.startswith('#[') or st.startswith('#!['):
                continue
            if 'verif_backing_region' in line or 'epserde_verif' in line:
                continue
            for (pat, rep) in OPS:
                for m in re.finditer(pat, line):
                    out.append((f, i, m.start(), m.end(), rep, 'replace %r by %r' % (m.group(0), rep)))
            for pat in DELETE_LINE:
                if re.search(pat, line) and st.endswith(';'):
                    out.append((f, i, 0, len(line), '', 'delete statement'))
    return out


def main():
    ap = argparse.ArgumentParser()
    ap.add_argument('--repo', required=True)
    ap.add_argument('--verif', required=True)
    ap.add_argument('--max', type=int, default=40)
    ap.add_argument('--seed', type=int, default=1)
    ap.add_argument('--out', default=None)
    a = ap.parse_args()
    repo, verif = os.path.abspath(a.repo), os.path.abspath(a.verif)
    assert repo != '/repo' and verif != '/verif', 'work on scratch copies only'
    cargo_toml = os.path.join(verif, 'harness', 'Cargo.toml')
    t = open(cargo_toml).read().replace('"/repo/', '"%s/' % repo)
    open(cargo_toml, 'w').write(t)
    out = a.out or os.path.join(verif, 'selftest', 'mutation_results.jsonl')
    env = dict(os.environ, CARGO_NET_OFFLINE='true', VERIF_REPO=repo)
    allsites = sites(repo)
    random.Random(a.seed).shuffle(allsites)
    print('%d mutation sites, sampling %d' % (len(allsites), a.max), flush=True)
    done = 0
    with open(out, 'a') as log:
        for (f, ln, s, e, rep, what) in allsites:
            if done >= a.max:
                break
            orig = open(f).read()
            lines = orig.split('\n')
            lines[ln] = lines[ln][:s] + rep + lines[ln][e:]
            open(f, 'w').write('\n'.join(lines))
            rel = os.path.relpath(f, repo)
            rec = {'file': rel, 'line': ln + 1, 'mutation': what, 'source': orig.split('\n')[ln].strip()[:160]}
            try:
                rc, o = sh(['cargo', 'build', '--offline', '-p', 'epserde'], cwd=repo, env=env)
                if 'epserde-derive' in rel:
                    rc2, o2 = sh(['cargo', 'build', '--offline', '-p', 'epserde-derive'], cwd=repo, env=env)
                    rc = rc or rc2
                if rc != 0:
                    continue    # does not compile: not a mutant
                rc, o = sh(['cargo', 'test', '--workspace', '--no-fail-fast', '--offline'], cwd=repo, env=env)
                if rc != 0 and 'epserde-derive' not in rel:
                    rec['fate'] = 'killed by the repository tests'
                else:
                    done += 1
                    first = next((v for k, v in ORDER.items() if k in rel), [])
                    order = first + [p for p in ALL if p not in first]
                    rec['fate'] = 'survived'
                    rec['tried'] = []
                    t0 = time.time()
                    for p in order:
                        rc, o = sh([os.path.join(verif, 'check'), p, '--flavours', 'debug'], cwd=verif, env=env, timeout=2400)
                        rec['tried'].append('%s:%d' % (p, rc))
                        if rc == 1 and 'VIOLATION property=%s' % p in o:
                            rec['fate'] = 'detected'
                            rec['by'] = p
                            rec['signature'] = next((l.strip().split(' ')[0] for l in o.splitlines() if l.startswith('  C')), '')
                            break
                    rec['wall_s'] = round(time.time() - t0, 1)
                print(json.dumps(rec), flush=True)
                log.write(json.dumps(rec) + '\n')
                log.flush()
            finally:
                open(f, 'w').write(orig)
    return 0


if __name__ == '__main__':
    sys.exit(main())
