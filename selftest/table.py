#!/usr/bin/env python3
"""Render selftest/results.json (+ seeded/*/meta.json) as the markdown table of DESIGN.md section 10."""
import glob, json, os
V = os.path.dirname(os.path.dirname(os.path.abspath(__file__)))
res = {r['mutant']: r for r in json.load(open(os.path.join(V, 'selftest', 'results.json')))}
meta = {}
for d in glob.glob(os.path.join(V, 'seeded', '*')):
    try:
        meta['seeded/' + os.path.basename(d)] = json.load(open(os.path.join(d, 'meta.json')))
    except OSError:
        pass
print('| Mutant | What it changes / what it needs to manifest | Check | Result | First signatures |')
print('|---|---|---|---|---|')
for name in sorted(res):
    r = res[name]
    if not r.get('applies'):
        continue
    if name.startswith('revert_') and not os.path.exists(os.path.join(V, 'selftest', 'patches', name + '.diff')):
        continue    # a row of a patch that has since been renamed / regenerated
    what = meta.get(name, {}).get('needs_to_manifest', '')
    if name.startswith('revert_'):
        what = 'reverse patch of the `fix:` commit "' + name.split('_', 2)[2].replace('_', ' ').strip() + '…"'
    for prop, c in sorted(r['checks'].items()):
        print('| %s | %s | %s | %s (%.0f s) | %s |' % (name.replace('seeded/', 'seeded/'), what.replace('|', '/'), prop,
              'detected' if c['fired'] else 'MISSED', c['wall_s'], ', '.join('`%s`' % s for s in c['signatures'][:2])))
